(* C02: the documented rules of the load pipeline, each as a characterisation (iff) of the corresponding
   function of the model, for nodes, parameter lists and mappings of every size. *)
From Coq Require Import NArith ZArith List Bool String Lia.
Import ListNotations.
From Y Require Import Prelude Node Tables NodeOps Types Recognize Loader Spec.
Open Scope N_scope.

Local Arguments ueqb : simpl never.

(* ---- built-ins: by exact YAML type ---- *)
Lemma rec_scalar_rule n T t : scalar_tag T = Some t ->
  (fst (rec_scalar n T) = [T] <-> exists v m, n = Scalar t v m) /\ (fst (rec_scalar n T) = [T] \/ fst (rec_scalar n T) = []).
Proof.
  intros Ht. unfold rec_scalar. rewrite Ht. destruct n as [t0 v m|t0 l m|t0 ps m]; cbn [fst].
  - destruct (ueqb_spec t0 t) as [->|Hne]; cbn [fst].
    + split; [|left; reflexivity]. split; [eauto | reflexivity].
    + split; [|right; reflexivity]. split; [discriminate|]. intros (v' & m' & E). injection E as -> _ _. congruence.
  - split; [|right; reflexivity]. split; [discriminate | intros (v' & m' & E); discriminate E].
  - split; [|right; reflexivity]. split; [discriminate | intros (v' & m' & E); discriminate E].
Qed.

(* ---- lists: element-wise ---- *)
Definition one (r : result RecResult) : Prop := exists x e, r = Ok ([x], e).
Lemma rec_items_rule rec k t : forall items, (forall i, In i items -> exists res, rec i = Ok res) ->
  exists r, rec_items rec k t items = Ok r /\ (fst r = [TList k t] <-> Forall (fun i => one (rec i)) items).
Proof.
  induction items as [|i items IH]; intros Htot; cbn [rec_items].
  - eexists. split; [reflexivity|]. split; [constructor | reflexivity].
  - destruct (Htot i (or_introl eq_refl)) as (res & Er). rewrite Er. cbn [bind].
    destruct (IH (fun j Hj => Htot j (or_intror Hj))) as (r & Erec & Hiff).
    destruct res as [tys e]. cbn [fst snd]. destruct tys as [|a [|b l]].
    + eexists. split; [reflexivity|]. cbn [fst]. split; [discriminate|].
      intros H. inversion H as [|? ? (x & e' & Hx) _]; subst. rewrite Er in Hx. discriminate Hx.
    + exists r. split; [exact Erec|]. rewrite Hiff. split.
      * intros H. constructor; [exists a, e; exact Er | exact H].
      * intros H. inversion H; assumption.
    + eexists. split; [reflexivity|]. cbn [fst map]. split; [discriminate|].
      intros H. inversion H as [|? ? (x & e' & Hx) _]; subst. rewrite Er in Hx. discriminate Hx.
Qed.

(* ---- dicts: pair-wise; (that keys must be strings is the guard in recognize: TDict with a key type other than str
        or a string-like class is refused outright) ---- *)
Lemma rec_pairs_rule reck recv k kt vt : forall ps,
  (forall kn vn, In (kn, vn) ps -> (exists res, reck kn = Ok res) /\ (exists res, recv vn = Ok res)) ->
  exists r, rec_pairs reck recv k kt vt ps = Ok r /\
            (fst r = [TDict k kt vt] <-> Forall (fun kv => one (reck (fst kv)) /\ one (recv (snd kv))) ps).
Proof.
  induction ps as [|[kn vn] ps IH]; intros Htot; cbn [rec_pairs].
  - eexists. split; [reflexivity|]. split; [constructor | reflexivity].
  - destruct (Htot kn vn (or_introl eq_refl)) as ((kres & Ek) & (vres & Ev)). rewrite Ek. cbn [bind].
    destruct (IH (fun a b Hj => Htot a b (or_intror Hj))) as (r & Erec & Hiff).
    destruct kres as [ktys ke]. cbn [fst snd]. destruct ktys as [|a [|b l]].
    + eexists. split; [reflexivity|]. cbn [fst]. split; [discriminate|].
      intros H. inversion H as [|? ? [(x & e' & Hx) _] _]; subst. cbn [fst] in Hx. rewrite Ek in Hx. discriminate Hx.
    + rewrite Ev. cbn [bind]. destruct vres as [vtys ve]. cbn [fst snd]. destruct vtys as [|a' [|b' l']].
      * eexists. split; [reflexivity|]. cbn [fst]. split; [discriminate|].
        intros H. inversion H as [|? ? [_ (x & e' & Hx)] _]; subst. cbn [snd] in Hx. rewrite Ev in Hx. discriminate Hx.
      * exists r. split; [exact Erec|]. rewrite Hiff. split.
        -- intros H. constructor; [cbn [fst snd]; split; [exists a, ke; exact Ek | exists a', ve; exact Ev] | exact H].
        -- intros H. inversion H; assumption.
      * eexists. split; [reflexivity|]. cbn [fst map]. split; [discriminate|].
        intros H. inversion H as [|? ? [_ (x & e' & Hx)] _]; subst. cbn [snd] in Hx. rewrite Ev in Hx. discriminate Hx.
    + eexists. split; [reflexivity|]. cbn [fst map]. split; [discriminate|].
      intros H. inversion H as [|? ? [(x & e' & Hx) _] _]; subst. cbn [fst] in Hx. rewrite Ek in Hx. discriminate Hx.
Qed.

(* ---- classes: by presence and type of their required constructor parameters; a dashed key stands in for an
        underscored one.  An attribute given twice, or present with a value its type does not recognise, refuses. ---- *)
Definition recognised (rec : node -> ty -> result RecResult) (sub : node) (T : ty) : bool :=
  match rec sub T with Ok (tys, _) => negb (is_nil tys) | Err _ => false end.
Definition attr_ok (rec : node -> ty -> result RecResult) (ps : list (node * node)) (name : ustring) (T : ty) : bool :=
  match get_attr_ps name ps with Ok sub => recognised rec sub T | Err _ => false end.
Definition param_ok (rec : node -> ty -> result RecResult) (ps : list (node * node)) (p : param) : bool :=
  if has_attr_ps (p_name p) ps then attr_ok rec ps (p_name p) (p_ty p)
  else if has_attr_ps (dashed (p_name p)) ps then attr_ok rec ps (dashed (p_name p)) (p_ty p)
  else negb (p_required p).

Lemma rec_params_rule rec n ps c : (forall sub T, exists res, rec sub T = Ok res) ->
  forall params, exists r, rec_params rec n ps params c = Ok r /\
    (fst r = if forallb (param_ok rec ps) params then [TClass c] else []).
Proof.
  intros Htot. induction params as [|p rest IH]; cbn [rec_params forallb].
  - eexists. split; reflexivity.
  - destruct IH as (r & Er & Hr). unfold param_ok at 1.
    destruct (has_attr_ps (p_name p) ps) eqn:H1.
    + unfold attr_ok. destruct (get_attr_ps (p_name p) ps) as [sub|e].
      * destruct (Htot sub (p_ty p)) as ([tys e'] & Es). unfold recognised. rewrite Es. cbn [bind fst snd].
        destruct tys as [|a l]; cbn [is_nil negb andb].
        -- eexists. split; reflexivity.
        -- exists r. split; [exact Er | exact Hr].
      * eexists. split; reflexivity.
    + destruct (has_attr_ps (dashed (p_name p)) ps) eqn:H2.
      * unfold attr_ok. destruct (get_attr_ps (dashed (p_name p)) ps) as [sub|e].
        -- destruct (Htot sub (p_ty p)) as ([tys e'] & Es). unfold recognised. rewrite Es. cbn [bind fst snd].
           destruct tys as [|a l]; cbn [is_nil negb andb].
           ++ eexists. split; reflexivity.
           ++ exists r. split; [exact Er | exact Hr].
        -- eexists. split; reflexivity.
      * destruct (p_required p); cbn [negb andb].
        -- eexists. split; reflexivity.
        -- exists r. split; [exact Er | exact Hr].
Qed.

(* ---- the constructor's verdict on the constructed mapping, and the arguments __init__ is called with ---- *)
Section ctor.
  Variable reg : registry.
  Definition no_missing_and_typed (params : list param) (kw : list (ustring * value)) : bool :=
    forallb (fun p => match uassoc (p_name p) kw with
                      | None => negb (p_required p)
                      | Some v => type_matches reg v (p_ty p) end) params.
  Definition no_unknown (params : list param) (kw : list (ustring * value)) : bool :=
    forallb (fun kv => umem (fst kv) (map p_name params)) kw.
  Definition no_reserved (kw : list (ustring * value)) : bool :=
    negb (existsb (fun kv => ueqb (fst kv) self_name || ueqb (fst kv) extra_name) kw).

  Theorem init_args_rule params extra mapping :
    init_args reg params extra mapping =
      let kw := kwargs_of mapping in
      if no_missing_and_typed params kw && (extra || no_unknown params kw) && no_reserved kw
      then Some (if extra then main_args params kw ++ [(extra_name, VDict (extra_args (map p_name params) kw))]
                 else main_args params kw)
      else None.
  Proof.
    unfold init_args, no_missing_and_typed, no_unknown, no_reserved. cbv zeta.
    set (kw := kwargs_of mapping).
    destruct (forallb _ params) eqn:E1; cbn [negb andb]; [|reflexivity].
    destruct extra; cbn [negb andb orb].
    - destruct (existsb _ kw); reflexivity.
    - destruct (forallb (fun kv => umem (fst kv) (map p_name params) || ueqb (fst kv) self_name) kw) eqn:E2; cbn [negb].
      + destruct (existsb (fun kv => ueqb (fst kv) self_name || ueqb (fst kv) extra_name) kw) eqn:E3.
        * cbn [negb]. rewrite andb_false_r. reflexivity.
        * (* no reserved key: "known or self" is "known" *)
          assert (E4 : forallb (fun kv => umem (fst kv) (map p_name params)) kw = true).
          { rewrite forallb_forall in *. intros kv Hin. specialize (E2 kv Hin).
            assert (Hs : ueqb (fst kv) self_name = false).
            { destruct (ueqb (fst kv) self_name) eqn:X; [|reflexivity].
              assert (existsb (fun kv => ueqb (fst kv) self_name || ueqb (fst kv) extra_name) kw = true).
              { apply existsb_exists. exists kv. split; [exact Hin | rewrite X; reflexivity]. }
              congruence. }
            rewrite Hs, orb_false_r in E2. exact E2. }
          rewrite E4. reflexivity.
      + assert (E4 : forallb (fun kv => umem (fst kv) (map p_name params)) kw = false).
        { destruct (forallb (fun kv => umem (fst kv) (map p_name params)) kw) eqn:X; [|reflexivity].
          rewrite forallb_forall in X.
          assert (forallb (fun kv => umem (fst kv) (map p_name params) || ueqb (fst kv) self_name) kw = true).
          { apply forallb_forall. intros kv Hin. rewrite (X kv Hin). reflexivity. }
          congruence. }
        rewrite E4. reflexivity.
  Qed.

  (* the arguments: exactly the given parameters, in signature order -- omitted optional ones are absent, so they take
     their Python defaults -- followed by the extra attributes, in document order *)
  Lemma main_args_only_given params kw a v : In (a, v) (main_args params kw) -> uassoc a kw = Some v.
  Proof.
    unfold main_args. rewrite in_flat_map. intros (p & _ & H). destruct (uassoc (p_name p) kw) as [x|] eqn:E; [|destruct H].
    destruct H as [H|[]]. injection H as <- <-. exact E.
  Qed.
  Lemma main_args_signature_order params kw : exists given, map fst (main_args params kw) = map p_name given /\
    given = filter (fun p => match uassoc (p_name p) kw with Some _ => true | None => false end) params.
  Proof.
    eexists. split; [|reflexivity]. unfold main_args. induction params as [|p rest IH]; [reflexivity|].
    cbn [flat_map filter]. destruct (uassoc (p_name p) kw); cbn [app map]; [f_equal|]; exact IH.
  Qed.
  Lemma extra_args_document_order known kw :
    map fst (extra_args known kw) = map (fun kv => VStr (fst kv)) (filter (fun kv => negb (umem (fst kv) known)) kw).
  Proof. unfold extra_args. rewrite map_map. reflexivity. Qed.
End ctor.

(* ---- the pipeline: recognise (exactly one type or fail), savorize, descend, then construct ---- *)
Theorem load_is_process_then_construct o reg n T :
  load o reg (Some n) T = (n' <- process o reg FUEL n T ;; construct o reg FUEL n').
Proof. reflexivity. Qed.
