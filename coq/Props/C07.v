(* C07 -- JSON dumps are valid JSON with the same data under every formatting option.
   Proofs: Proofs/JsonProofs.v (state machine = recursive printer), Proofs/JsonGrammar.v (printer output is
   RFC 8259 JSON denoting the JSON projection; compact ASCII default).  Model/Json.v is the grammar. *)
From Coq Require Import NArith ZArith List Bool String Lia.
Import ListNotations.
From Y Require Import Prelude Node Re ReSound ReSem JsonEmit Json JsonProofs JsonGrammar.
Open Scope N_scope.

(* The emitter is fed one event at a time and keeps a stack; for trees of EVERY depth and shape and every
   indent / ensure_ascii setting it writes exactly the recursive rendering. *)
Theorem C07_emit_is_render : forall o j, dumps_json o j = Some (render_doc o j).
Proof. exact emit_is_render. Qed.
Print Assumptions C07_emit_is_render.

(* The text is strict JSON (Model/Json.v) whose content is the JSON projection of the tree, for every option. *)
Theorem C07_output_is_json : forall o j, tree_ok j ->
  exists text, dumps_json o j = Some text /\ json_text text (jproj j).
Proof. exact dumps_json_is_json. Qed.
Print Assumptions C07_output_is_json.

(* every string, whatever it contains (quotes, backslashes, controls, non-BMP, lone surrogates), is written as a
   valid string literal denoting exactly that string, with and without ensure_ascii *)
Theorem C07_strings : forall ascii s, valid_str s -> json_strlit (json_string ascii s) s.
Proof. exact json_string_is_strlit. Qed.

(* The default output (indent=None) has no whitespace outside strings: it is the compact rendering ... *)
Theorem C07_default_is_compact : forall ascii j ind,
  render {| jo_indent := None; jo_ascii := ascii |} ind j = crender ascii j.
Proof. exact default_render_is_compact. Qed.
(* ... and with ensure_ascii every string literal is ASCII-only; without it non-ASCII characters are left as they are *)
Theorem C07_ensure_ascii : forall s, ascii_only (json_string true s).
Proof. exact json_string_ascii. Qed.
Theorem C07_unicode_unescaped : forall c, 127 < c -> json_escape_char false c = [c].
Proof.
  intros c H. unfold json_escape_char.
  repeat match goal with |- context [N.eqb c ?k] => destruct (N.eqb_spec c k); [lia|] end.
  destruct (N.ltb_spec c 32); [lia | reflexivity].
Qed.

(* numbers are written verbatim: what PyYAML's representer writes for ints and finite floats (a model of str(int)
   and repr(float), monitored by the tie) is inside the JSON number language -- for texts of every length *)
Definition repr_int : re := mkCat (opt (chr 45)) (mkAlt (chr 48) (mkCat (rng 49 57) (mkStar digit))).
Definition repr_float : re :=
  mkCat repr_int (mkCat (chr 46) (mkCat (plus digit)
        (opt (mkCat (chr 101) (mkCat (Cls [(43,43); (45,45)]) (plus digit)))))).
Theorem C07_number_images : forall t, matches (mkAlt repr_int repr_float) t = true -> json_number t.
Proof.
  intros t H. unfold json_number.
  assert (E : equiv_check (Nat.mul 100 100) (incl_re (mkAlt repr_int repr_float) json_number_re) Emp = true)
    by (vm_compute; reflexivity).
  pose proof (equiv_check_sound _ _ _ E t) as S. unfold incl_re in S.
  rewrite matches_mkAnd, matches_mkNot, matches_Emp, H in S. simpl in S.
  destruct (matches json_number_re t); [reflexivity | discriminate].
Qed.
Print Assumptions C07_number_images.

(* non-vacuity *)
Local Open Scope string_scope.
Definition ex_tree : jtree :=
  JMap [(JScalar tag_str [97; 34], JSeq [JScalar tag_int (u "1"); JScalar tag_float (u "1.0e+300"); JScalar tag_null (u "null")]);
        (JScalar tag_str [233; 128512], JMap [])].
Example C07_ex_ok : tree_ok ex_tree.
Proof.
  cbn. repeat split; try (exists [97; 34]; split; [reflexivity|]); try (exists [233; 128512]; split; [reflexivity|]);
    repeat constructor; try (vm_compute; reflexivity).
Qed.
(* the document written with indent 2: the quote in the first key is escaped, the second key is ASCII-escaped *)
Example C07_ex_text :
  dumps_json {| jo_indent := Some 2%nat; jo_ascii := true |} ex_tree =
  Some (([123; 10; 32; 32; 34; 97; 92; 34; 34; 58; 32; 91; 10] ++ u "    1," ++ [10] ++ u "    1.0e+300," ++ [10] ++ u "    null" ++ [10]
        ++ u "  ]," ++ [10; 32; 32; 34] ++ [92] ++ u "u00e9" ++ [92] ++ u "ud83d" ++ [92] ++ u "ude00" ++ [34; 58; 32; 123; 10; 32; 32; 32; 32; 10]
        ++ u "  }" ++ [10; 125; 10])%list).
Proof. vm_compute. reflexivity. Qed.
