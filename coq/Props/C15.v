(* C15 -- placeholder while the tie is brought up; theorems follow. *)
From Coq Require Import NArith List Bool.
From Y Require Import Prelude Node NodeOps OpsRun.
Theorem C15_placeholder : True. Proof. exact I. Qed.
