(* C15 -- structural seasoning transforms are inverse pairs and no-ops when not applicable.
   Statements only; proofs in Proofs/TransformProofs.v.  Model: Model/NodeOps.v, tied to
   yatiml/helpers.py by the correspondence check (harness/props/c15.py). *)
From Coq Require Import NArith ZArith List Bool String.
Import ListNotations.
From Y Require Import Prelude Node Tables NodeOps OpsRun AccessorProofs TransformProofs.
Open Scope N_scope.

(* seq_attribute_to_map then map_attribute_to_seq restores every item up to the position of the key
   attribute (key_last) and marks (erase), for sequences of any length of plain mappings with unique string
   keys, provided a named value attribute does not itself hold a mapping (part of plain_item) *)
Theorem C15_inverse_seq_map : forall a k va strict t ps m ts items ms keys,
  get_attr_ps a ps = Ok (Seq ts items ms) ->
  Forall2 (plain_item k va) items keys -> keys_unique [] keys = true ->
  exists n1 n2 items',
    seq_attribute_to_map a k va strict (Map t ps m) = Ok n1 /\
    map_attribute_to_seq a k va n1 = Ok n2 /\
    n2 = Map t (set_attr_ps a (Seq tag_seq items' ms) ps) m /\
    Forall2 (fun it' itk => exists ips im, fst itk = Map tag_map ips im /\
                             erase it' = Map tag_map (erase_ps (key_last k (snd itk) ips)) nomark)
            items' (combine items keys).
Proof. exact inverse_seq_map. Qed.
Print Assumptions C15_inverse_seq_map.

(* index_attribute_to_map then map_attribute_to_index restores every entry of an index (inner key attribute
   equal to the outer key) up to the position of the key attribute *)
Theorem C15_inverse_index_map : forall a k va t ps m items ms,
  get_attr_ps a ps = Ok (Map tag_map items ms) -> Forall (index_entry k va) items ->
  exists n1 n2 items',
    index_attribute_to_map a k va (Map t ps m) = Ok n1 /\
    map_attribute_to_index a k va n1 = Ok n2 /\
    n2 = Map t (set_attr_ps a (Map tag_map items' ms) ps) m /\
    Forall2 (fun e' e => exists key mk ips im, e = (Scalar tag_str key mk, Map tag_map ips im) /\
               fst e' = fst e /\
               erase (snd e') = Map tag_map (erase_ps (without_key k ips ++ [(Scalar tag_str k nomark, Scalar tag_str key nomark)])) nomark)
            items' items.
Proof. exact inverse_index_map. Qed.
Print Assumptions C15_inverse_index_map.

(* the shape of each single transform is, by definition of the model, map s2m_entry / m2s_item / i2m_entry /
   m2i_entry over the items; the short form is chosen only when the value attribute is the sole remaining key *)
Theorem C15_short_form_only_when_sole : forall k v t ps m,
  snd (s2m_entry k (Some v) (Map t ps m)) <> Map t (remove_first k ps) m ->
  exists k1 v1, remove_first k ps = [(k1, v1)] /\ key_is v k1 = true /\ snd (s2m_entry k (Some v) (Map t ps m)) = v1.
Proof.
  intros k v t ps m H. unfold s2m_entry in *.
  destruct (remove_first k ps) as [|[k1 v1] [|p r]] eqn:E; try (exfalso; apply H; reflexivity).
  destruct (key_is v k1) eqn:K; [|exfalso; apply H; reflexivity].
  exists k1, v1. auto.
Qed.

(* missing attribute, or attribute of the wrong kind: the node is returned unchanged, no exception *)
Theorem C15_noop_missing : forall a k va strict t ps m, has_attr_ps a ps = false ->
  seq_attribute_to_map a k va strict (Map t ps m) = Ok (Map t ps m) /\
  map_attribute_to_seq a k va (Map t ps m) = Ok (Map t ps m) /\
  index_attribute_to_map a k va (Map t ps m) = Ok (Map t ps m) /\
  map_attribute_to_index a k va (Map t ps m) = Ok (Map t ps m).
Proof.
  intros. repeat split; [apply s2m_missing | apply m2s_missing | apply i2m_missing | apply m2i_missing]; assumption.
Qed.
Theorem C15_noop_wrong_kind : forall a k va strict t ps m v, get_attr_ps a ps = Ok v ->
  (is_sequence v = false -> seq_attribute_to_map a k va strict (Map t ps m) = Ok (Map t ps m)) /\
  (is_mapping v = false -> map_attribute_to_seq a k va (Map t ps m) = Ok (Map t ps m) /\
                           index_attribute_to_map a k va (Map t ps m) = Ok (Map t ps m) /\
                           map_attribute_to_index a k va (Map t ps m) = Ok (Map t ps m)).
Proof.
  intros a k va strict t ps m v H. split; intros Hk.
  - eapply s2m_wrong_kind; eassumption.
  - repeat split; [eapply m2s_wrong_kind | eapply i2m_wrong_kind | eapply m2i_wrong_kind]; eassumption.
Qed.
(* a sequence with an item that is not a mapping or lacks the key attribute is never converted *)
Theorem C15_noop_bad_item : forall k strict items seen,
  Exists (fun it => match it with Map _ ips _ => has_attr_ps k ips = false | _ => True end) items ->
  forall ks, s2m_validate k strict seen items <> S2M_ok ks.
Proof. intros. apply s2m_validate_bad_item; assumption. Qed.
(* mappings with a non-mapping value are left alone when no value attribute is named (and always by
   index_attribute_to_map) *)
Theorem C15_noop_bad_value : forall a k t ps m items tt mm, get_attr_ps a ps = Ok (Map tt items mm) ->
  forallb (fun kv => is_mapping (snd kv)) items = false ->
  map_attribute_to_seq a k None (Map t ps m) = Ok (Map t ps m) /\
  (forall va, index_attribute_to_map a k va (Map t ps m) = Ok (Map t ps m)) /\
  map_attribute_to_index a k None (Map t ps m) = Ok (Map t ps m).
Proof.
  intros. repeat split; [eapply m2s_bad_value | intros; eapply i2m_bad_value | eapply m2i_bad_value]; eauto.
Qed.
(* the three mapping transforms never raise (given the attribute name occurs at most once) *)
Theorem C15_mapping_transforms_total : forall a k va t ps m v,
  (has_attr_ps a ps = false \/ get_attr_ps a ps = Ok v) ->
  (exists r, map_attribute_to_seq a k va (Map t ps m) = Ok r) /\
  (exists r, index_attribute_to_map a k va (Map t ps m) = Ok r) /\
  (exists r, map_attribute_to_index a k va (Map t ps m) = Ok r).
Proof. intros. eapply mapping_transforms_total; eassumption. Qed.
(* duplicate keys: SeasoningError exactly in strict mode, silently nothing otherwise *)
Theorem C15_duplicates_strict_only : forall k strict items keys, Forall2 (good_item k) items keys ->
  s2m_validate k strict [] items =
    (if keys_unique [] keys then S2M_ok keys else if strict then S2M_err else S2M_noop).
Proof. intros. rewrite (s2m_validate_good k strict items keys [] H). reflexivity. Qed.

(* unders_to_dashes_in_keys / dashes_to_unders_in_keys are inverse on keys free of the target character *)
Theorem C15_dashes_unders_inverse : forall t ps m,
  Forall (fun kv => match fst kv with Scalar _ v _ => ~ In 45 v | _ => False end) ps ->
  exists n1, unders_to_dashes_in_keys (Map t ps m) = Ok n1 /\ dashes_to_unders_in_keys n1 = Ok (Map t ps m).
Proof. intros. apply rewrite_keys_inverse. assumption. Qed.
Theorem C15_unders_dashes_inverse : forall t ps m,
  Forall (fun kv => match fst kv with Scalar _ v _ => ~ In 95 v | _ => False end) ps ->
  exists n1, dashes_to_unders_in_keys (Map t ps m) = Ok n1 /\ unders_to_dashes_in_keys n1 = Ok (Map t ps m).
Proof. intros. apply rewrite_keys_inverse. assumption. Qed.
Print Assumptions C15_dashes_unders_inverse.

(* non-vacuity: a two-item list, one short-form and one long-form item, round-trips *)
Definition S_ (s : string) := Scalar tag_str (u s) nomark.
Definition ex_items : list node :=
  [Map tag_map [(S_ "id", S_ "a"); (S_ "v", S_ "x")] nomark;
   Map tag_map [(S_ "v", S_ "y"); (S_ "id", S_ "b"); (S_ "w", S_ "z")] nomark].
Example C15_ex : exists n1 n2,
  seq_attribute_to_map (u "items") (u "id") (Some (u "v")) true (Map tag_map [(S_ "items", Seq tag_seq ex_items nomark)] nomark) = Ok n1 /\
  n1 = Map tag_map [(S_ "items", Map tag_map [(S_ "a", S_ "x"); (S_ "b", Map tag_map [(S_ "v", S_ "y"); (S_ "w", S_ "z")] nomark)] nomark)] nomark /\
  map_attribute_to_seq (u "items") (u "id") (Some (u "v")) n1 = Ok n2 /\
  erase n2 = Map tag_map [(S_ "items", Seq tag_seq
     [Map tag_map [(S_ "v", S_ "x"); (S_ "id", S_ "a")] nomark;
      Map tag_map [(S_ "v", S_ "y"); (S_ "w", S_ "z"); (S_ "id", S_ "b")] nomark] nomark)] nomark.
Proof. eexists. eexists. split; [vm_compute; reflexivity|]. split; [reflexivity|]. split; vm_compute; reflexivity. Qed.
