(* C10 -- seasoning and recognition hooks run once, own class only, bases first.
   Proofs: Proofs/HookOrder.v.  In the model a class record holds only the hooks defined in the class's OWN
   body (the harness fills it from cls.__dict__), so "own class only" is how the registry is read; that the
   implementation reads it the same way is checked by the tie on all hook subsets of generated chains. *)
From Coq Require Import NArith ZArith List Bool String Sorted.
Import ListNotations.
From Y Require Import Prelude Node Tables NodeOps Types Recognize Loader Hooks Represent Spec HookOrder SweetenOrder.
Open Scope N_scope.

(* loading a node as class c applies exactly the savorize hooks of savorize_order, in that order ... *)
Theorem C10_savorize_applies_order : forall reg fuel c n,
  savorize reg fuel c n = fold_left (apply_hook reg) (savorize_order reg fuel c) (Ok n).
Proof. exact savorize_is_fold. Qed.
(* ... which, for single-inheritance registries, is the registered ancestor chain of c (root first, c last)
   filtered to the classes that define a hook in their own body: no other class's hook runs *)
Theorem C10_savorize_order_is_chain : forall reg, single_inh reg -> forall fuel c,
  savorize_order reg fuel c = filter (defines_savorize reg) (chain reg fuel c).
Proof. exact savorize_order_chain. Qed.
(* each at most once, ancestors before descendants (for acyclic hierarchies, witnessed by a rank) *)
Theorem C10_chain_once_and_ordered : forall reg rank,
  (forall c k b, find_cls reg c = Some k -> In b (registered_bases reg k) -> (rank b < rank c)%nat) ->
  forall fuel c, NoDup (chain reg fuel c) /\ StronglySorted (fun a b => (rank a < rank b)%nat) (chain reg fuel c).
Proof. intros reg rank H fuel c. split; [eapply chain_nodup | eapply chain_sorted]; eassumption. Qed.
Print Assumptions C10_chain_once_and_ordered.
(* after recognition, before the attributes are processed and type-checked *)
Theorem C10_stages : forall o reg f n T c k e,
  recognize o reg (S f) n T = Ok ([TClass c], e) -> find_cls reg c = Some k ->
  process o reg (S f) n T =
    (let n0 := match c_shape k, n with
               | ShEnum _, Scalar tg v m => if ueqb tg tag_bool then Scalar tag_str v m else n
               | _, _ => n end in
     n1 <- match savorize reg FUELK c n0 with Err ESeasoning => Err ERecognition | r => r end ;;
     n2 <- (if is_objectlike k && is_mapping n1 then process_attrs (process o reg f) (params_of k) n1 else Ok n1) ;;
     Ok (set_tag (bang c) n2)).
Proof. exact process_class_stages. Qed.
(* a SeasoningError raised while savourising surfaces as RecognitionError *)
Theorem C10_seasoning_error : forall o reg f n T c k e,
  recognize o reg (S f) n T = Ok ([TClass c], e) -> find_cls reg c = Some k ->
  savorize reg FUELK c (match c_shape k, n with
                        | ShEnum _, Scalar tg v m => if ueqb tg tag_bool then Scalar tag_str v m else n
                        | _, _ => n end) = Err ESeasoning ->
  process o reg (S f) n T = Err ERecognition.
Proof. exact seasoning_error_is_recognition_error. Qed.
Print Assumptions C10_seasoning_error.

(* dumping side: the sweeten hooks that run for an object of class c are those of the same chain, in the same order
   (ancestors first, each class's OWN hook only, once); a class that defines no hook of its own contributes nothing,
   so an inherited hook runs once, for the class that defines it *)
Theorem C10_sweeten_applies_order : forall reg fuel c n,
  sweeten reg fuel c n = fold_left (apply_sweeten reg) (sweeten_order reg fuel c) (Ok n).
Proof. exact sweeten_is_fold. Qed.
Theorem C10_sweeten_order_is_chain : forall reg, single_inh reg -> forall fuel c,
  sweeten_order reg fuel c = filter (defines_sweeten reg) (chain reg fuel c).
Proof. exact sweeten_order_chain. Qed.
Theorem C10_inherited_sweeten_not_rerun : forall reg, single_inh reg -> forall fuel c, defines_sweeten reg c = false ->
  ~ In c (sweeten_order reg fuel c).
Proof. exact no_own_hook_no_run. Qed.
Print Assumptions C10_inherited_sweeten_not_rerun.
