(* C18 -- anchors and aliases are transparent.
   A document with aliases is a node graph (Model/Graph.v).  The loader first expands the graph into a
   tree -- every alias becomes a copy of the anchored node -- and then runs the tree pipeline, so loading
   an aliased document IS loading its expansion; what has to be shown is that expansion always ends with
   a verdict (self-references are rejected, never looped on).  The tie (harness/props/c18.py) compares
   Loader.__expand_aliases with `expand` on composed graphs, aliased vs textually expanded documents on
   the implementation, and the implementation with the model run on the expansion. *)
From Coq Require Import NArith ZArith List Bool String.
Import ListNotations.
From Y Require Import Prelude Node Tables NodeOps Types Recognize Loader Graph GraphProofs.

(* loading a graph is loading its expansion, and fails iff expansion or that load fails *)
Theorem C18_transparent : forall o reg g root T,
  load_graph o reg g root T = match expand_graph g root with
                              | Ok n => load o reg (Some n) T
                              | Err e => Err e end.
Proof. intros. unfold load_graph. destruct (expand_graph g root); reflexivity. Qed.

(* expansion terminates with a verdict for every graph: it never exhausts its fuel (= the stack) *)
Theorem C18_expand_total : forall g root, exists r, expand_graph g root = r /\ r <> Err EFuel.
Proof. exact expand_graph_total. Qed.
Print Assumptions C18_expand_total.

(* a reference to an enclosing node is rejected with RecognitionError *)
Theorem C18_cycle_rejected : forall f g path l, In l path -> expand (S f) g path l = Err ERecognition.
Proof. exact expand_rejects_cycle. Qed.

(* non-vacuity: a shared scalar is copied; &a [*a] is rejected *)
Local Open Scope string_scope.
Example C18_ex_shared :
  expand_graph [CMap tag_map [(1, 2); (3, 2)]%nat nomark; CScalar tag_str (u "k1") nomark;
                CScalar tag_str (u "v") nomark; CScalar tag_str (u "k2") nomark] 0%nat
  = Ok (Map tag_map [(Scalar tag_str (u "k1") nomark, Scalar tag_str (u "v") nomark);
                     (Scalar tag_str (u "k2") nomark, Scalar tag_str (u "v") nomark)] nomark).
Proof. vm_compute. reflexivity. Qed.
Example C18_ex_cycle : expand_graph [CSeq tag_seq [0%nat] nomark] 0%nat = Err ERecognition.
Proof. vm_compute. reflexivity. Qed.
