(* C18 -- placeholder while the tie is brought up; theorems follow. *)
From Y Require Import Prelude Node Loader LoadRun.
Theorem C18_placeholder : True. Proof. exact I. Qed.
