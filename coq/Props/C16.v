(* C16 -- UnknownNode.require_* accept exactly the nodes they describe.
   Statements only; proofs in Proofs/RequireProofs.v.  In the model the helpers are functions from the node to
   a verdict (true: returns normally, false: raises RecognitionError): they have no way of modifying the node;
   that the implementation does not either is checked by the tie on every case (harness/props/c16.py). *)
From Coq Require Import NArith ZArith List Bool String.
Import ListNotations.
From Y Require Import Prelude Node Tables NodeOps Types Recognize ScalarProofs RequireProofs.
Open Scope N_scope.

Theorem C16_require_scalar : forall o recog n kinds, (forall k, In k kinds -> tag_of_kind k <> None) ->
  (require o recog n (RqScalar (map TyK kinds)) = Ok true <-> spec_scalar n kinds).
Proof. exact require_scalar_spec. Qed.
Theorem C16_require_mapping : forall o recog n, require o recog n RqMapping = Ok true <-> exists t ps m, n = Map t ps m.
Proof. exact require_mapping_spec. Qed.
Theorem C16_require_sequence : forall o recog n, require o recog n RqSequence = Ok true <-> exists t l m, n = Seq t l m.
Proof. exact require_sequence_spec. Qed.
(* present and, if a type is given, recognisable as that type by the rules the loader itself uses *)
Theorem C16_require_attribute : forall o reg fuel n a T,
  let recog := fun v T => match recognize o reg fuel v T with Ok (tys, _) => negb (is_nil tys) | Err _ => false end in
  (require o recog n (RqAttr a None) = Ok true <-> exists t ps m v rest, n = Map t ps m /\ lookup_all a ps = v :: rest) /\
  (require o recog n (RqAttr a (Some T)) = Ok true <->
   exists t ps m v rest tys e, n = Map t ps m /\ lookup_all a ps = v :: rest /\
                               recognize o reg fuel v T = Ok (tys, e) /\ tys <> []).
Proof.
  intros o reg fuel n a T recog. split; [|apply require_attribute_uses_recognize].
  rewrite require_attribute_spec. unfold spec_attr. split.
  - intros (t&ps&m&v&rest&H1&H2&_). eauto 8.
  - intros (t&ps&m&v&rest&H1&H2). exists t, ps, m, v, rest. auto.
Qed.
Print Assumptions C16_require_attribute.
(* a present scalar of the value's type that is equal / present and not equal *)
Theorem C16_require_attribute_value : forall o recog t ps m a v vn, one_attr ps a vn ->
  (require o recog (Map t ps m) (RqAttrValue a v) = Ok true <->
   is_scalar vn (TyK (kind_of_sval v)) = Ok true /\ sval_eq_node o v vn = Ok true).
Proof. exact require_attribute_value_spec. Qed.
Theorem C16_require_attribute_value_not : forall o recog t ps m a v vn, one_attr ps a vn ->
  (require o recog (Map t ps m) (RqAttrValueNot a v) = Ok true <->
   is_scalar vn (TyK (kind_of_sval v)) = Ok false \/
   (is_scalar vn (TyK (kind_of_sval v)) = Ok true /\ sval_eq_node o v vn = Ok false)).
Proof. exact require_attribute_value_not_spec. Qed.
Theorem C16_value_checks_need_the_attribute : forall o recog t ps m a v,
  Forall (fun kv => match fst kv with Scalar t kv' _ => ueqb t tag_str && ueqb kv' a | _ => false end = false) ps ->
  require o recog (Map t ps m) (RqAttrValue a v) = Ok false /\ require o recog (Map t ps m) (RqAttrValueNot a v) = Ok false.
Proof. exact require_value_missing. Qed.
Print Assumptions C16_require_attribute_value_not.

(* non-vacuity *)
Local Open Scope string_scope.
Example C16_ex : let n := Map tag_map [(Scalar tag_str (u "kind") nomark, Scalar tag_str (u "circle") nomark);
                                       (Scalar tag_str (u "r") nomark, Scalar tag_int (u "3") nomark)] nomark in
  require [] (fun _ _ => true) n (RqAttrValue (u "kind") (SvStr (u "circle"))) = Ok true /\
  require [] (fun _ _ => true) n (RqAttrValue (u "kind") (SvStr (u "square"))) = Ok false /\
  require [] (fun _ _ => true) n (RqAttrValueNot (u "kind") (SvStr (u "square"))) = Ok true /\
  require [] (fun _ _ => true) n (RqScalar [TyK KInt]) = Ok false.
Proof. vm_compute. repeat split; reflexivity. Qed.
