(* C11 -- load and dump functions are stateless, isolated, and leave PyYAML untouched.
   Model: Model/World.v (the class-level registries behind the functions as a state machine, copy-on-first-write as
   PyYAML's add_constructor / add_representer do it).  Proofs: Proofs/WorldProofs.v, by induction over ARBITRARY
   histories of creating functions and calling them.  Thread interleavings are not in the model: calls are atomic
   steps there.  That calls from concurrent threads do not interfere is observed on the implementation (see the check). *)
From Coq Require Import NArith List Bool String.
Import ListNotations.
From Y Require Import Prelude World WorldProofs.
Open Scope N_scope.

(* PyYAML's own class-level tables are the same after any history. *)
Theorem C11_pyyaml_untouched : forall bc br ops,
  base_ctor (run (init bc br) ops) = bc /\ base_repr (run (init bc br) ops) = br.
Proof. intros bc br ops. exact (run_base ops (init bc br)). Qed.
Print Assumptions C11_pyyaml_untouched.

(* A function's registry is fixed at creation: no later creation, use or failure of this or any other function changes it. *)
Theorem C11_function_state_stable : forall ops w i f,
  (nth_error (loaders w) i = Some f -> nth_error (loaders (run w ops)) i = Some f) /\
  (nth_error (dumpers w) i = Some f -> nth_error (dumpers (run w ops)) i = Some f).
Proof. intros. split; [apply function_state_is_stable | apply dumper_state_is_stable]. Qed.
Theorem C11_calls_are_pure : forall w i, step w (CallLoad i) = w /\ step w (CallDump i) = w.
Proof. exact calls_are_pure. Qed.

(* What a newly created function sees does not depend on the history before it. *)
Theorem C11_creation_history_free : forall bc br ops1 ops2 cs owner,
  new_fn (base_ctor (run (init bc br) ops1)) owner cs = new_fn (base_ctor (run (init bc br) ops2)) owner cs.
Proof. intros. apply new_loader_view_history_free. Qed.

(* Isolation: in every reachable world, function i's table holds PyYAML's entries (owner 0) and its OWN classes
   (owner i+1) only -- a class registered with another function, same-named or not, is unknown to it. *)
Theorem C11_isolated : forall bc br, owners_in bc (fun x => x = 0) -> owners_in br (fun x => x = 0) ->
  forall ops, isolated (run (init bc br) ops).
Proof. exact reachable_isolated. Qed.
Print Assumptions C11_isolated.
(* ... and its own classes are there *)
Theorem C11_own_classes_known : forall base owner cs c, In c cs -> tlookup (view base (new_fn base owner cs)) c = Some owner.
Proof. exact new_fn_sees. Qed.

(* non-vacuity: two functions with a same-named class K *)
Local Open Scope string_scope.
Example C11_ex :
  let w := run (init [(u "tag:yaml.org,2002:int", 0)] []) [NewLoad [u "K"]; CallLoad 0; NewLoad [u "K"; u "L"]; CallLoad 1] in
  map (fun f => tlookup (view (base_ctor w) f) (u "!K")) (loaders w) = [Some 1; Some 2] /\
  map (fun f => tlookup (view (base_ctor w) f) (u "!L")) (loaders w) = [None; Some 2] /\
  base_ctor w = [(u "tag:yaml.org,2002:int", 0)].
Proof. vm_compute. repeat split; reflexivity. Qed.
