(* C17 -- recognition errors point at the offending place.
   Model: the error tree of Model/Recognize.v (marks and key names, mirroring (message, causes) of the recogniser);
   Model/ErrRun.v says which positions a tree cites.  Proofs: Proofs/ErrorMarks.v.
   The wording of messages and the errors raised after recognition (constructor type check, user code) are not modelled:
   for those, and for "the position is on the line of the corrupted node", the check judges the implementation's messages
   directly on single-point corruptions of valid documents. *)
From Coq Require Import NArith ZArith List Bool String.
Import ListNotations.
From Y Require Import Prelude Node Tables NodeOps Types Recognize Loader ErrRun ErrorMarks.
Open Scope N_scope.

(* Every position mentioned anywhere in the recogniser's error tree -- for documents, types and class hierarchies of
   every size -- is the position of a node of the document: nothing outside the document is ever cited. *)
Theorem C17_cited_positions_inside : forall o reg fuel n T res,
  recognize o reg fuel n T = Ok res -> forall m, In m (marks_of (snd res)) -> In m (all_marks n).
Proof. intros o reg fuel n T res E. exact (proj1 (recognize_inside o reg fuel) n T res E). Qed.
Print Assumptions C17_cited_positions_inside.
(* in particular the leaves, which are what the message prints *)
Theorem C17_printed_positions_inside : forall o reg fuel n T res,
  recognize o reg fuel n T = Ok res -> forall m, In m (leaf_marks (snd res)) -> In m (all_marks n).
Proof. intros o reg fuel n T res E m H. eapply C17_cited_positions_inside; [exact E | apply leaf_marks_sub, H]. Qed.
Print Assumptions C17_printed_positions_inside.

(* A class position at the document root that does not recognise exactly one class mentions at least one position
   (none recognised, a conflicting tag, or -- since fix 23bf2f2 -- several candidates). *)
Theorem C17_root_failure_cites : forall o reg f n c res,
  rec_classes o reg (S f) n c true = Ok res -> List.length (fst res) <> 1%nat -> marks_of (snd res) <> [].
Proof. exact root_failure_cites. Qed.
Print Assumptions C17_root_failure_cites.

(* non-vacuity: a missing required key is reported at the start of the mapping and names the key *)
Local Open Scope string_scope.
Definition ex_k : cls :=
  {| c_name := u "K"; c_bases := [u "object"]; c_ancestors := [u "K"; u "object"]; c_abstract := false;
     c_shape := ShObj [{| p_name := u "size"; p_ty := TInt; p_required := true |}] false;
     c_recognize := None; c_savorize := None; c_sweeten := None; c_init_ok := fun _ => true; c_str_ok := fun _ => true |}.
Definition ex_doc : node :=
  Map tag_map [(Scalar tag_str (u "sise") {| m_line := 2; m_col := 0; m_gen := false |},
                Scalar tag_int (u "3") {| m_line := 2; m_col := 6; m_gen := false |})] {| m_line := 2; m_col := 0; m_gen := false |}.
Example C17_ex : match recognize [] [ex_k] 10 ex_doc (TClass (u "K")) with
                 | Ok (tys, e) => (tys, map pos_of (leaf_marks e), leaf_keys e)
                 | Err _ => ([], [], [])
                 end = ([], [(2, 0)%nat], [u "size"]).
Proof. vm_compute. reflexivity. Qed.
