(* C17 -- recognition errors point at the offending place.
   Model: the error tree of Model/Recognize.v (marks and key names, mirroring (message, causes) of the recogniser);
   Model/ErrRun.v says which positions a tree cites.  Proofs: Proofs/ErrorMarks.v.
   The wording of messages and the errors raised after recognition (constructor type check, user code) are not modelled:
   for those, and for "the position is on the line of the corrupted node", the check judges the implementation's messages
   directly on single-point corruptions of valid documents. *)
From Coq Require Import NArith ZArith List Bool String.
Import ListNotations.
From Y Require Import Prelude Node Tables NodeOps Types Recognize Loader ErrRun ErrorMarks ClassRoundTrip ErrorKeys ErrorCites.
Open Scope N_scope.

(* Every position mentioned anywhere in the recogniser's error tree -- for documents, types and class hierarchies of
   every size -- is the position of a node of the document: nothing outside the document is ever cited. *)
Theorem C17_cited_positions_inside : forall o reg fuel n T res,
  recognize o reg fuel n T = Ok res -> forall m, In m (marks_of (snd res)) -> In m (all_marks n).
Proof. intros o reg fuel n T res E. exact (proj1 (recognize_inside o reg fuel) n T res E). Qed.
Print Assumptions C17_cited_positions_inside.
(* in particular the leaves, which are what the message prints *)
Theorem C17_printed_positions_inside : forall o reg fuel n T res,
  recognize o reg fuel n T = Ok res -> forall m, In m (leaf_marks (snd res)) -> In m (all_marks n).
Proof. intros o reg fuel n T res E m H. eapply C17_cited_positions_inside; [exact E | apply leaf_marks_sub, H]. Qed.
Print Assumptions C17_printed_positions_inside.

(* A class position at the document root that does not recognise exactly one class mentions at least one position
   (none recognised, a conflicting tag, or -- since fix 23bf2f2 -- several candidates). *)
Theorem C17_root_failure_cites : forall o reg f n c res,
  rec_classes o reg (S f) n c true = Ok res -> List.length (fst res) <> 1%nat -> marks_of (snd res) <> [].
Proof. exact root_failure_cites. Qed.
Print Assumptions C17_root_failure_cites.

(* EVERY recognition that does not end with exactly one type -- at the root or at any depth, for every type, every
   registry (hierarchies, abstract classes, arbitrary custom recognisers) and every document -- yields an error tree whose
   printed part (its leaves) cites at least one position.  Process raises RecognitionError with exactly this tree
   (C03_exactly_one_or_fail), so every such RecognitionError cites a position.  True since fixes 23bf2f2, 8ba5adb and c13638b;
   each of the three defects was a counterexample to this statement. *)
Theorem C17_every_failure_cites : forall o reg fuel n T res,
  recognize o reg fuel n T = Ok res -> List.length (fst res) <> 1%nat -> leaf_marks (snd res) <> [].
Proof. intros o reg fuel n T res E. exact (proj1 (every_failure_cites o reg fuel) n T res E). Qed.
Print Assumptions C17_every_failure_cites.

(* The strong claim, on hierarchy-free ("flat": no custom hooks, no registered sub- or superclasses) models, for mappings
   without an application tag, of every size: EVERY failure to recognise a mapping as a class is explained by one
   constructor parameter p with a real defect --
     a required key that is absent under both spellings,   printed: the start of the mapping and the key's name;
     a key given twice,                                    printed: the start of the mapping and the key's name;
     a value not recognised as p's type,                   printed: exactly what the failed recognition of that VALUE prints
   (positions inside the value by C17_printed_positions_inside; for a built-in scalar type the value's own position by
   C17_wrong_scalar_cites_itself).  With a single corrupted place there is one defective parameter, so it is the one cited.
   That a defect does make recognition fail is C02_class_rule. *)
Theorem C17_flat_class_failure_explained : forall o reg, flat reg ->
  forall f t ps m c k params extra e,
  find_cls reg c = Some k -> c_shape k = ShObj params extra -> uprefix core_prefix t = true ->
  recognize o reg (S (S f)) (Map t ps m) (TClass c) = Ok ([], e) ->
  exists e', leaf_marks e = leaf_marks e' ++ [] /\ leaf_keys e = leaf_keys e' ++ [] /\
             exists p, In p params /\ explained (recognize o reg f) (Map t ps m) ps p e'.
Proof. exact flat_class_failure. Qed.
Print Assumptions C17_flat_class_failure_explained.
Theorem C17_explanation_prints : forall rec n ps p e, explained rec n ps p e ->
  (leaf_marks e = [nmark n] /\ exists name, leaf_keys e = [name] /\ (name = p_name p \/ name = dashed (p_name p))) \/
  (exists name sub res, (name = p_name p \/ name = dashed (p_name p)) /\ get_attr_ps name ps = Ok sub /\
      rec sub (p_ty p) = Ok res /\ fst res = [] /\ leaf_marks e = leaf_marks (snd res) ++ []).
Proof. exact explained_prints. Qed.
Print Assumptions C17_explanation_prints.
(* a value of the wrong kind at a built-in scalar type is cited at its own position *)
Theorem C17_wrong_scalar_cites_itself : forall o reg f n T e,
  match T with TStr | TInt | TFloat | TBool | TDate | TPath => True | _ => False end ->
  recognize o reg (S f) n T = Ok ([], e) -> leaf_marks e = [nmark n] /\ leaf_keys e = [].
Proof.
  intros o reg f n T e HT H.
  assert (G : rec_scalar n T = ([], e) \/ rec_path n = ([], e)).
  { destruct T; try contradiction; cbn [recognize] in H; inversion H; auto. }
  clear H. destruct G as [H|H]; unfold rec_scalar, rec_path in H; destruct n as [t v m|t l m|t ps m];
    repeat match type of H with
           | context [match ?x with Some _ => _ | None => _ end] => destruct x
           | context [if ?b then _ else _] => destruct b
           end; try discriminate H; injection H as <-; split; reflexivity.
Qed.
Print Assumptions C17_wrong_scalar_cites_itself.

(* non-vacuity: a missing required key is reported at the start of the mapping and names the key *)
Local Open Scope string_scope.
Definition ex_k : cls :=
  {| c_name := u "K"; c_bases := [u "object"]; c_ancestors := [u "K"; u "object"]; c_abstract := false;
     c_shape := ShObj [{| p_name := u "size"; p_ty := TInt; p_required := true |}] false;
     c_recognize := None; c_savorize := None; c_sweeten := None; c_init_ok := fun _ => true; c_str_ok := fun _ => true |}.
Definition ex_doc : node :=
  Map tag_map [(Scalar tag_str (u "sise") {| m_line := 2; m_col := 0; m_gen := false |},
                Scalar tag_int (u "3") {| m_line := 2; m_col := 6; m_gen := false |})] {| m_line := 2; m_col := 0; m_gen := false |}.
Example C17_ex : match recognize [] [ex_k] 10 ex_doc (TClass (u "K")) with
                 | Ok (tys, e) => (tys, map pos_of (leaf_marks e), leaf_keys e)
                 | Err _ => ([], [], [])
                 end = ([], [(2, 0)%nat], [u "size"]).
Proof. vm_compute. reflexivity. Qed.
(* the hypotheses of the strong claim are satisfiable: the example registry is flat *)
Example C17_ex_flat : flat [ex_k].
Proof. apply flatb_sound. vm_compute. reflexivity. Qed.
