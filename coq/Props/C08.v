(* C08 -- placeholder while the tie is brought up; theorems follow. *)
From Y Require Import Prelude Node Loader LoadRun.
Theorem C08_placeholder : True. Proof. exact I. Qed.
