(* C08 -- bad input is reported only as RecognitionError or a YAML error.
   Proofs: Proofs/ErrorClosed.v.  The model starts at the composed node graph: that text PyYAML cannot parse
   raises yaml.YAMLError before yatiml runs is observed by the tie, not modelled. *)
From Coq Require Import NArith ZArith List Bool String.
Import ListNotations.
From Y Require Import Prelude Node Tables NodeOps Types Recognize Loader Spec Conform WellTagged ErrorClosed.
Open Scope N_scope.

(* For every registry whose savorize hooks fail only in the documented ways (SeasoningError / RecognitionError),
   whose declared types are supported (dict keys are strings or string-like classes), every oracle whose
   conversion errors concern core-tagged scalars, and EVERY document: a load returns a value or fails with
   RecognitionError or a YAML error -- never KeyError, ValueError, TypeError, AttributeError, IndexError,
   RuntimeError, RecursionError or SeasoningError.  (EFuel / EOracle are artefacts of the model, counted = 0 by the
   tie.)  User constructors and string-like constructors may raise anything: they are wrapped. *)
Theorem C08_load_error_closed : forall o reg doc T,
  wf_registry reg -> supported_reg reg -> supported reg T -> protocol reg ->
  (forall d c kd kc, rsub reg d c -> find_cls reg d = Some kd -> find_cls reg c = Some kc ->
                     c_shape kc = ShStr -> c_shape kd = ShStr) ->
  oracle_errors_ok o ->
  match load o reg doc T with
  | Ok _ | Err ERecognition | Err EYaml | Err EFuel | Err EOracle => True
  | Err (EPy _) | Err ESeasoning => False
  end.
Proof.
  intros o reg doc T Hr Hs HT Hp Hi Ho.
  pose proof (good_load o reg Hr Hs Hp Hi Ho doc T HT) as G. unfold good in G.
  destruct (load o reg doc T) as [v|e]; [exact I|]. destruct e; try exact I; exact G.
Qed.
Print Assumptions C08_load_error_closed.

(* the three stages separately *)
Theorem C08_recognize_closed : forall o reg fuel n T, wf_registry reg -> supported_reg reg -> supported reg T ->
  good (recognize o reg fuel n T).
Proof. intros o reg fuel n T Hr Hs HT. destruct (good_recognize o reg Hs fuel) as [H _]. apply H. exact HT. Qed.
Theorem C08_construct_closed : forall o reg fuel n, oracle_errors_ok o -> good (construct o reg fuel n).
Proof. intros. apply good_construct. assumption. Qed.
Theorem C08_oracle_hypothesis_decidable : forall o, oracle_errors_okb o = true -> oracle_errors_ok o.
Proof. exact oracle_errors_okb_sound. Qed.
Print Assumptions C08_construct_closed.

(* non-vacuity: duplicate parameter key, explicit core tag on wrong content, unknown tag: RecognitionError / YAML error *)
Local Open Scope string_scope.
Definition kcls : cls := {| c_name := u "K"; c_bases := []; c_ancestors := [u "K"]; c_abstract := false;
  c_shape := ShObj [{| p_name := u "a"; p_ty := TInt; p_required := true |}] false;
  c_recognize := None; c_savorize := None; c_sweeten := None; c_init_ok := fun _ => false; c_str_ok := fun _ => true |}.
Definition I_ (s : string) := Scalar tag_int (u s) nomark.
Definition S_ (s : string) := Scalar tag_str (u s) nomark.
Example C08_ex :
  load [] [kcls] (Some (Map tag_map [(S_ "a", I_ "1"); (S_ "a", I_ "2")] nomark)) (TClass (u "K")) = Err ERecognition /\
  load [((tag_int, u "abc"), Err (EPy PyValueError))] [kcls] (Some (I_ "abc")) TAny = Err ERecognition /\
  load [((u "!Nope", u "x"), Err EYaml)] [kcls] (Some (Scalar (u "!Nope") (u "x") nomark)) (TList 0 TAny) = Err ERecognition /\
  load [((tag_int, u "1"), Ok (VInt 1))] [kcls] (Some (Map tag_map [(S_ "a", I_ "1")] nomark)) (TClass (u "K")) = Err ERecognition.
Proof. vm_compute. repeat split; reflexivity. Qed.
