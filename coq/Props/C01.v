(* C01 -- a loaded value always conforms to the declared type.
   Statement only; proofs: Proofs/WellTagged.v (recogniser soundness), WellTagged2.v (process establishes
   well_tagged), Conform.v / Conform2.v (construction of a well-tagged node conforms).
   The model (Model/Recognize.v, Loader.v) is tied to yatiml by harness/props/c01.py. *)
From Coq Require Import NArith ZArith List Bool String.
Import ListNotations.
From Y Require Import Prelude Node Tables NodeOps OpsRun Types Recognize Loader Hooks Spec
     Conform Conform2 WellTagged WellTagged2 WfDecide.
Open Scope N_scope.

(* For every registry (classes with ARBITRARY recognisers, savorize functions and constructors that may
   raise), every scalar oracle, every declared type and every document -- including the empty stream (None):
   if load returns a value, the value conforms to the declared type all the way down. *)
Theorem C01_load_conforms : forall o reg doc T v,
  wf_registry reg -> oracle_wf o -> load o reg doc T = Ok v -> conforms reg v T.
Proof. intros o reg doc T v Hr Ho E. eapply load_conforms; eassumption. Qed.
Print Assumptions C01_load_conforms.

(* the two halves, as used by other properties *)
Theorem C01_process_well_tagged : forall o reg fuel n T n', wf_registry reg ->
  process o reg fuel n T = Ok n' -> well_tagged reg n' T.
Proof. intros. eapply process_well_tagged; eassumption. Qed.
Theorem C01_construct_conforms : forall o reg fuel n T v, wf_registry reg -> oracle_wf o ->
  well_tagged reg n T -> construct o reg fuel n = Ok v -> conforms reg v T.
Proof. intros. eapply construct_conforms; eassumption. Qed.
(* what recognition returns is always admitted by the declared type and fits the node *)
Theorem C01_recognize_sound : forall o reg fuel n T res, wf_registry reg ->
  recognize o reg fuel n T = Ok res -> Forall (sound reg n T) (fst res).
Proof. intros o reg fuel n T res Hr E. destruct (recognize_sound o reg Hr fuel) as [H _]. eapply H; exact E. Qed.
Print Assumptions C01_recognize_sound.

(* the hypotheses are decidable on concrete data *)
Theorem C01_wf_decidable : forall reg o, wf_registryb reg = true -> oracle_wfb o = true -> wf_registry reg /\ oracle_wf o.
Proof. intros. split; [apply wf_registryb_sound | apply oracle_wfb_sound]; assumption. Qed.

(* non-vacuity: a hierarchy Base <- Mid <- Leaf with a permissive recogniser on Mid and a savorize on Base that
   renames an attribute; a document tagged !!python/object loads to a concrete Leaf whose nested item is a Mid
   (recognised by the permissive recogniser, its attribute renamed by Base's savorize), extras arriving as plain data *)
Local Open Scope string_scope.
Definition S_ (s : string) := Scalar tag_str (u s) nomark.
Definition I_ (s : string) := Scalar tag_int (u s) nomark.
Definition ex_specs : list cls_spec :=
  [ {| s_name := u "Base"; s_bases := []; s_ancestors := [u "Base"]; s_abstract := false;
       s_shape := ShObj [{| p_name := u "a"; p_ty := TInt; p_required := true |}] false;
       s_recognize := None; s_savorize := Some [SOp (OpRename (u "alias") (u "a"))]; s_sweeten := None;
       s_init := InitOk; s_str := StrOk |};
    {| s_name := u "Mid"; s_bases := [u "Base"]; s_ancestors := [u "Mid"; u "Base"]; s_abstract := false;
       s_shape := ShObj [{| p_name := u "a"; p_ty := TInt; p_required := true |};
                         {| p_name := u "x"; p_ty := TUnion [TStr; TNone]; p_required := false |}] false;
       s_recognize := Some []; s_savorize := None; s_sweeten := None; s_init := InitOk; s_str := StrOk |};
    {| s_name := u "Leaf"; s_bases := [u "Mid"]; s_ancestors := [u "Leaf"; u "Mid"; u "Base"]; s_abstract := false;
       s_shape := ShObj [{| p_name := u "a"; p_ty := TInt; p_required := true |};
                         {| p_name := u "sub"; p_ty := TList 1 (TClass (u "Base")); p_required := true |}] true;
       s_recognize := None; s_savorize := None; s_sweeten := None; s_init := InitOk; s_str := StrOk |} ].
Definition ex_oracle : oracle := [((tag_int, u "1"), Ok (VInt 1)); ((tag_int, u "2"), Ok (VInt 2))].
Definition ex_doc : node :=
  Map (u "tag:yaml.org,2002:python/object:os.system")
    [(S_ "a", I_ "1");
     (S_ "sub", Seq tag_seq [Map tag_map [(S_ "alias", I_ "2"); (S_ "x", S_ "hi")] nomark] nomark);
     (S_ "more", Map (u "!Leaf") [(S_ "k", I_ "2")] nomark)] nomark.
Example C01_ex_hyps : wf_registry (interp_reg ex_oracle ex_specs) /\ oracle_wf ex_oracle.
Proof. apply C01_wf_decidable; vm_compute; reflexivity. Qed.
Example C01_ex_load :
  load ex_oracle (interp_reg ex_oracle ex_specs) (Some ex_doc) (TClass (u "Base"))
  = Ok (VObj (u "Leaf") [(u "a", VInt 1);
                        (u "sub", VList [VObj (u "Mid") [(u "a", VInt 2); (u "x", VStr (u "hi"))]]);
                        (u "_yatiml_extra", VDict [(VStr (u "more"), VDict [(VStr (u "k"), VInt 2)])])]).
Proof. vm_compute. reflexivity. Qed.
