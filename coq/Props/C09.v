(* C09 -- plain scalars are typed by YAML 1.2 rules for booleans and floats.
   loader_tbl / std_tbl are GENERATED from /repo on every run (Gen/Tables.v);
   each theorem is re-checked against what the code says now.  Every length of
   string is covered: the certificates are closed sets of derivative pairs
   re-verified by the kernel (is_bisim), not samples. *)
From Coq Require Import NArith List Bool String.
Import ListNotations.
From Y Require Import Prelude Re ReSound ReSem Resolve Decide Specs Tables C09Obl.
Open Scope N_scope.

(* bool exactly when one of the six spellings *)
Theorem C09_bool : forall s, valid s = true ->
  (resolve loader_tbl s = tag_bool <-> In s six_bools).
Proof.
  intros s Hv. rewrite <- matches_words.
  apply (exact_check_sound loader_tbl tag_bool spec_bool); [vm_compute; reflexivity | exact Hv].
Qed.
Print Assumptions C09_bool.

(* float exactly when a YAML 1.2 core float *)
Theorem C09_float : forall s, valid s = true ->
  (resolve loader_tbl s = tag_float <-> matches yaml12_float s = true).
Proof.
  intros s Hv.
  apply (exact_check_sound loader_tbl tag_float yaml12_float); [vm_compute; reflexivity | exact Hv].
Qed.
Print Assumptions C09_float.

(* what resolves to float / bool is in the domain of the constructor that then runs *)
Theorem C09_agree_float : forall s, valid s = true ->
  resolve loader_tbl s = tag_float -> matches py_float_dom s = true.
Proof.
  intros s Hv. apply (incl_check_sound loader_tbl tag_float py_float_dom); [vm_compute; reflexivity | exact Hv].
Qed.
Theorem C09_agree_bool : forall s, valid s = true ->
  resolve loader_tbl s = tag_bool -> matches py_bool_dom s = true.
Proof.
  intros s Hv. apply (incl_check_sound loader_tbl tag_bool py_bool_dom); [vm_compute; reflexivity | exact Hv].
Qed.
Print Assumptions C09_agree_float.
Print Assumptions C09_agree_bool.

(* integer, null, timestamp (and merge/value/str) typing is PyYAML's: whatever the
   patched table gives other than bool/float, PyYAML's own table gives the same
   tag, or it was one of the YAML 1.1 bool/float spellings that are now demoted. *)
Theorem C09_rest : forall t s, In t other_tags -> valid s = true ->
  resolve loader_tbl s = t -> In (resolve std_tbl s) [t; tag_bool; tag_float].
Proof.
  intros t s Ht Hv.
  assert (H : forallb (fun t => cross_check loader_tbl std_tbl t [t; tag_bool; tag_float]) other_tags = true)
    by (vm_compute; reflexivity).
  rewrite forallb_forall in H. apply (cross_check_sound _ _ _ _ (H t Ht)); exact Hv.
Qed.
Print Assumptions C09_rest.
(* ... and conversely PyYAML's int/null/timestamp strings keep their type *)
Theorem C09_rest_conv : forall t s, In t pyyaml_tags ->
  valid s = true -> resolve std_tbl s = t -> resolve loader_tbl s = t.
Proof.
  intros t s Ht Hv Hr.
  assert (H : forallb (fun t => cross_check std_tbl loader_tbl t [t]) pyyaml_tags = true)
    by (vm_compute; reflexivity).
  rewrite forallb_forall in H. pose proof (cross_check_sound _ _ _ _ (H t Ht) s Hv Hr) as [E|[]].
  symmetry; exact E.
Qed.
Print Assumptions C09_rest_conv.

(* the only tags the tables can produce are the ones enumerated (so C09_rest covers all) *)

(* non-vacuity: concrete strings on both sides of each statement *)
Example C09_ex1 : resolve loader_tbl (u "1.5e3") = tag_float /\ matches yaml12_float (u "1.5e3") = true.
Proof. vm_compute. split; reflexivity. Qed.
Example C09_ex2 : resolve loader_tbl (u "TRUE") = tag_bool /\ In (u "TRUE") six_bools.
Proof. split; [vm_compute; reflexivity | vm_compute; tauto]. Qed.
Example C09_ex3 : resolve loader_tbl (u "yes") = tag_str /\ resolve std_tbl (u "yes") = tag_bool.
Proof. vm_compute. split; reflexivity. Qed.
Example C09_ex4 : resolve loader_tbl (u "1_000.5") = tag_str /\ resolve loader_tbl (u "0x1F") = tag_int.
Proof. vm_compute. split; reflexivity. Qed.
