(* C12 -- every source and sink kind gives the same result.
   What a theorem can carry here is the byte-level contract between the kinds: a str or text stream hands PyYAML code
   points, a file or binary stream hands it their UTF-8 encoding; decoding that encoding gives back exactly the code
   points, for texts of every length (Proofs/Utf8Proofs.v).  The dispatch itself (which branch opens a file, which
   options reach yaml.dump) is a few lines of glue with no state: it is decided by running every kind on the same
   cases and comparing values / written bytes, not by a theorem (see the check and DESIGN.md). *)
From Coq Require Import NArith List Bool.
Import ListNotations.
From Y Require Import Utf8 Utf8Proofs.
Open Scope N_scope.

Theorem C12_utf8_roundtrip : forall s, forallb is_scalar_value s = true -> decode (encode s) = Some s.
Proof. exact decode_encode. Qed.
Print Assumptions C12_utf8_roundtrip.
Theorem C12_utf8_bytes : forall s, forallb is_scalar_value s = true -> Forall (fun b => b < 256) (encode s).
Proof. exact encode_bytes. Qed.
Print Assumptions C12_utf8_bytes.

(* non-vacuity: ASCII, Latin-1, BMP, astral *)
Example C12_ex : encode [97; 233; 8364; 128512] = [97; 195; 169; 226; 130; 172; 240; 159; 152; 128] /\
                 decode [97; 195; 169; 226; 130; 172; 240; 159; 152; 128] = Some [97; 233; 8364; 128512] /\
                 decode [192; 128] = None /\ decode [237; 160; 128] = None.     (* overlong NUL, encoded surrogate *)
Proof. vm_compute. repeat split; reflexivity. Qed.
