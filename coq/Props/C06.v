(* C06 -- dumps are faithful, tag-free and ordered.
   Proofs: Proofs/DumpProofs.v, Resolver/Images.v.  Model: Model/Represent.v (representers, sweeten chain, the
   serializer's implicit-tag rule over the GENERATED dumper resolver table, reparse, plain_read, projection).
   "Dumping never modifies the object graph" and "repeated dumps give identical text" are trivial in a functional
   model and are NOT claimed from it: the check observes them on the implementation (deep snapshot, double dump). *)
From Coq Require Import NArith ZArith List Bool String.
Import ListNotations.
From Y Require Import Prelude Node Re Resolve Images Tables NodeOps Types Recognize Loader Hooks Represent DumpProofs SweetenKeeps.
Open Scope N_scope.

(* No explicit tag is written, for values of every size and shape: every scalar is implicit under the dumper's own
   resolver table (or is a str, which the emitter quotes when needed), every collection has its default tag.
   leaves_ok: bytes excluded; float/date/datetime texts lie in the languages PyYAML writes (evaluated by the tie).
   Integer texts are covered for integers of every size (z_to_dec_image). User sweeteners must themselves not
   introduce tags (sweeten_keeps). *)
Theorem C06_tag_free : forall o reg,
  sweeten_keeps reg (fun n => tag_free n = true) ->
  forall fuel v n, leaves_ok o v = true -> represent o reg fuel v = Ok n -> tag_free n = true.
Proof. exact represent_tag_free. Qed.
Print Assumptions C06_tag_free.

(* The scalar facts behind it, each one certificate over the generated table covering strings of every length. *)
Theorem C06_int_texts_implicit : forall z, resolve dumper_tbl (z_to_dec z) = tag_int.
Proof. intros z. apply int_resolves, z_to_dec_image. Qed.
Theorem C06_float_texts_implicit : forall s, matches float_image s = true -> resolve dumper_tbl s = tag_float.
Proof. exact float_resolves. Qed.
Theorem C06_date_texts_implicit : forall s, matches (mkAlt date_image datetime_image) s = true -> resolve dumper_tbl s = tag_timestamp.
Proof.
  intros s H. rewrite ReSem.matches_mkAlt in H. apply orb_true_iff in H.
  destruct H; [apply date_resolves | apply datetime_resolves]; assumption.
Qed.
Print Assumptions C06_date_texts_implicit.

(* Written as text with ANY quoting decisions (plain_ok arbitrary) and read by a plain parser -- PyYAML's SafeLoader,
   whose table std_tbl is generated too -- the tree comes back with the same tags: whatever the dumper may leave
   unquoted (by its own table, which since fix 2c35a4a differs from PyYAML's) the plain parser resolves alike. *)
Theorem C06_reparse_identity : forall o reg,
  sweeten_keeps reg (fun n => rt_stable std_tbl n = true) ->
  forall plain_ok fuel v n, leaves_ok o v = true -> represent o reg fuel v = Ok n ->
  reparse std_tbl plain_ok n = n.
Proof.
  intros o reg HK plain_ok fuel v n HL E. apply reparse_stable.
  exact (represent_rt_stable std_tbl cert_s_str cert_s_int cert_s_float cert_s_date cert_s_datetime cert_s_words o reg HK fuel v n HL E).
Qed.

(* ... and what the parser builds from it is the object's projection: constructor parameters in declaration order
   followed by the extra attributes, enum members by name, string-likes and paths by str(), dict and list order kept. *)
Theorem C06_faithful : forall o reg, no_sweeten reg ->
  forall plain_ok fuel v n, leaves_ok o v = true -> represent o reg fuel v = Ok n ->
  plain_read o (reparse std_tbl plain_ok n) = Ok (projection v).
Proof.
  intros o reg HN plain_ok fuel v n HL E.
  rewrite (C06_reparse_identity o reg) with (fuel := fuel) (v := v); try assumption.
  - eapply represent_reads_projection; eassumption.
  - intros c k h x y Ek Eh. rewrite (HN c k Ek) in Eh. discriminate Eh.
Qed.
Print Assumptions C06_faithful.

(* With sweeteners: the attribute mapping is altered only by the class's own sweeten chain (bases first, C10). *)
Theorem C06_only_sweeteners_alter : forall o reg f c attrs,
  represent o reg (S f) (VObj c attrs) =
    if registered reg c then
      ps <- represent_attrs (represent o reg f) attrs ;;
      fold_left (apply_sweeten reg) (sweeten_order reg FUELK c) (Ok (Map tag_map ps genmark))
    else Err EYaml.
Proof. reflexivity. Qed.

(* yatiml's own dumping sweeteners (remove_attributes_with_default_values, remove_attribute) only delete attributes:
   registries whose sweeten hooks are built from them satisfy the hypothesis sweeten_keeps of C06_tag_free. *)
Theorem C06_deleting_sweeteners_keep_tag_free : forall o specs,
  Forall (fun s => match Hooks.s_sweeten s with Some prog => forallb deleting_prog prog = true | None => True end) specs ->
  sweeten_keeps (Hooks.interp_reg o specs) (fun n => tag_free n = true).
Proof. intros o specs H. exact (deleting_registry_keeps o specs implicit_scalar H). Qed.

(* ---- non-vacuity: a class with an extra-attributes parameter, look-alike strings, an enum, a date ---- *)
Local Open Scope string_scope.
Definition ex_cls (name : string) (sh : shape) : cls :=
  {| c_name := u name; c_bases := [u "object"]; c_ancestors := [u name; u "object"]; c_abstract := false; c_shape := sh;
     c_recognize := None; c_savorize := None; c_sweeten := None; c_init_ok := fun _ => true; c_str_ok := fun _ => true |}.
Definition ex_reg : registry :=
  [ex_cls "Doc" (ShObj [] true); ex_cls "Color" (ShEnum [u "red"])].
Definition ex_oracle : oracle :=
  [((tag_int, u "-12"), Ok (VInt (-12))); ((tag_timestamp, u "2001-12-14"), Ok (VDate (u "2001-12-14")));
   ((tag_null, u "null"), Ok VNone)].
Definition ex_value : value :=
  VObj (u "Doc") [(u "name", VStr (u "1e5")); (u "n", VInt (-12)); (u "c", VEnum (u "Color") (u "red"));
                  (u "d", VDate (u "2001-12-14"));
                  (extra_name, VDict [(VStr (u "null"), VNone); (VStr (u "k"), VList [VStr (u "yes")])])].
Example C06_ex_premises : leaves_ok ex_oracle ex_value = true /\ no_sweeten ex_reg.
Proof.
  split; [vm_compute; reflexivity|].
  intros c k H. unfold ex_reg in H. cbn [find_cls] in H.
  repeat match type of H with (if ?b then _ else _) = _ => destruct b end; try discriminate H; injection H as <-; reflexivity.
Qed.
Example C06_ex_read :
  (n <- represent ex_oracle ex_reg Loader.FUEL ex_value ;; plain_read ex_oracle (reparse std_tbl (fun _ => true) n)) =
  Ok (VDict [(VStr (u "name"), VStr (u "1e5")); (VStr (u "n"), VInt (-12)); (VStr (u "c"), VStr (u "red"));
             (VStr (u "d"), VDate (u "2001-12-14")); (VStr (u "null"), VNone); (VStr (u "k"), VList [VStr (u "yes")])]).
Proof. vm_compute. reflexivity. Qed.
