(* C02 -- load accepts exactly what the documented pipeline admits and builds that value.
   Proofs: Proofs/Pipeline.v (+ C01: the value conforms to the type; C03: exactly one type or fail; C04: extras are
   plain data).  Each documented rule is proved as a characterisation of the model's function that implements it, for
   inputs of every size.  NOT proved: the global statement that the three verdicts (recognition of the whole subtree at
   the parent, recognition again at each child, the constructor's check on constructed values) coincide with one
   bottom-up relation -- C02_load_iff_spec of DESIGN.md.  That agreement is what the check's reference oracle and the
   exhaustive small-document tie decide on the implementation. *)
From Coq Require Import NArith ZArith List Bool String.
Import ListNotations.
From Y Require Import Prelude Node Tables NodeOps Types Recognize Loader Hooks LoadRun Spec Pipeline Verdicts.
Open Scope N_scope.

(* the pipeline: recognise and rewrite tags top-down, then construct bottom-up *)
Theorem C02_pipeline : forall o reg n T,
  load o reg (Some n) T = (n' <- process o reg FUEL n T ;; construct o reg FUEL n').
Proof. exact load_is_process_then_construct. Qed.

(* built-ins: by exact YAML type *)
Theorem C02_builtin_rule : forall n T t, scalar_tag T = Some t ->
  (fst (rec_scalar n T) = [T] <-> exists v m, n = Scalar t v m) /\ (fst (rec_scalar n T) = [T] \/ fst (rec_scalar n T) = []).
Proof. exact rec_scalar_rule. Qed.
Print Assumptions C02_builtin_rule.

(* lists and dicts: element-wise, each element recognised as exactly one type *)
Theorem C02_list_rule : forall rec k t items, (forall i, In i items -> exists res, rec i = Ok res) ->
  exists r, rec_items rec k t items = Ok r /\ (fst r = [TList k t] <-> Forall (fun i => one (rec i)) items).
Proof. exact rec_items_rule. Qed.
Theorem C02_dict_rule : forall reck recv k kt vt ps,
  (forall kn vn, In (kn, vn) ps -> (exists res, reck kn = Ok res) /\ (exists res, recv vn = Ok res)) ->
  exists r, rec_pairs reck recv k kt vt ps = Ok r /\
            (fst r = [TDict k kt vt] <-> Forall (fun kv => one (reck (fst kv)) /\ one (recv (snd kv))) ps).
Proof. exact rec_pairs_rule. Qed.
Print Assumptions C02_dict_rule.

(* classes: recognised iff every parameter is either present exactly once -- under its name, or else under its dashed
   name -- with a value its type recognises, or absent and not required *)
Theorem C02_class_rule : forall rec n ps c, (forall sub T, exists res, rec sub T = Ok res) ->
  forall params, exists r, rec_params rec n ps params c = Ok r /\
    (fst r = if forallb (param_ok rec ps) params then [TClass c] else []).
Proof. exact rec_params_rule. Qed.
Print Assumptions C02_class_rule.

(* the constructor: no missing required attribute, every given one of its type, no unknown attribute unless the class
   takes _yatiml_extra, no reserved key; then __init__ receives exactly the given parameters (omitted optional ones take
   their Python defaults), in signature order, and the extra attributes in document order *)
Theorem C02_constructor_rule : forall reg params extra mapping,
  init_args reg params extra mapping =
    let kw := kwargs_of mapping in
    if no_missing_and_typed reg params kw && (extra || no_unknown params kw) && no_reserved kw
    then Some (if extra then main_args params kw ++ [(extra_name, VDict (extra_args (map p_name params) kw))]
               else main_args params kw)
    else None.
Proof. exact init_args_rule. Qed.
Print Assumptions C02_constructor_rule.
Theorem C02_only_given_parameters : forall params kw a v, In (a, v) (main_args params kw) -> uassoc a kw = Some v.
Proof. exact main_args_only_given. Qed.
Theorem C02_signature_order : forall params kw, exists given, map fst (main_args params kw) = map p_name given /\
  given = filter (fun p => match uassoc (p_name p) kw with Some _ => true | None => false end) params.
Proof. exact main_args_signature_order. Qed.
Theorem C02_extras_document_order : forall known kw,
  map fst (extra_args known kw) = map (fun kv => VStr (fst kv)) (filter (fun kv => negb (umem (fst kv) known)) kw).
Proof. exact extra_args_document_order. Qed.

(* The third verdict agrees with the first two: the constructor's own isinstance-based check on constructed values
   accepts every value that conforms to the declared type (and C01 proves that what processing and construction
   produce for an attribute does conform).  ancestors_ok: Python's MRO contains the registered-bases chains --
   decidable, evaluated by the tie on every generated registry.  keys_wf: dicts keyed by str. *)
Theorem C02_constructor_accepts_conforming : forall reg, ancestors_ok reg ->
  forall T v, keys_wf T -> conforms reg v T -> type_matches reg v T = true.
Proof. exact conforms_type_matches. Qed.
Print Assumptions C02_constructor_accepts_conforming.
Theorem C02_ancestors_decidable : forall reg, ancestors_okb reg = true -> ancestors_ok reg.
Proof. exact ancestors_okb_sound. Qed.

(* non-vacuity: the dashed key is accepted by recognition and refused by the constructor (no _yatiml_extra) *)
Local Open Scope string_scope.
Definition ex_p : cls :=
  {| c_name := u "P"; c_bases := [u "object"]; c_ancestors := [u "P"; u "object"]; c_abstract := false;
     c_shape := ShObj [{| p_name := u "a_b"; p_ty := TInt; p_required := true |}] false;
     c_recognize := None; c_savorize := None; c_sweeten := None; c_init_ok := fun _ => true; c_str_ok := fun _ => true |}.
Definition ex_doc (key : string) : node := Map tag_map [(Scalar tag_str (u key) nomark, Scalar tag_int (u "1") nomark)] nomark.
Example C02_ex :
  load [((tag_int, u "1"), Ok (VInt 1))] [ex_p] (Some (ex_doc "a_b")) (TClass (u "P")) = Ok (VObj (u "P") [(u "a_b", VInt 1)]) /\
  option_map fst (match recognize [] [ex_p] 10 (ex_doc "a-b") (TClass (u "P")) with Ok r => Some r | _ => None end) = Some [TClass (u "P")] /\
  load [((tag_int, u "1"), Ok (VInt 1))] [ex_p] (Some (ex_doc "a-b")) (TClass (u "P")) = Err ERecognition.
Proof. vm_compute. repeat split; reflexivity. Qed.
