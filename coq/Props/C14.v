(* C14 -- yatiml.Node accessors behave like an ordered map and a typed scalar.
   Statements only; proofs are in Proofs/AccessorProofs.v and Proofs/ScalarProofs.v.
   The model (Model/NodeOps.v) is tied to yatiml/helpers.py by the correspondence
   check in harness/props/c14.py; scalar_type_to_tag is regenerated from /repo. *)
From Coq Require Import NArith ZArith List Bool String.
Import ListNotations.
From Y Require Import Prelude Node Tables NodeOps OpsRun AccessorProofs ScalarProofs.
Open Scope N_scope.

(* Any sequence of has/get/set/remove/rename/has_attribute_type on a mapping with distinct scalar keys
   returns what the same operations return on an insertion-ordered dictionary, and leaves a mapping
   whose abstraction is the dictionary's final state (for every length of sequence). *)
Theorem C14_accessors_refine_ordered_dict :
  forall o t m ops ps l' rets, wf ps -> spec_run (abs ps) ops = Some (l', rets) ->
  exists ps', run o (Map t ps m) ops = (Map t ps' m, rets) /\ abs ps' = l' /\ wf ps'.
Proof. intros. eapply accessors_refine; eassumption. Qed.
Print Assumptions C14_accessors_refine_ordered_dict.

(* the dictionary itself behaves as documented: existing keys keep position, new keys append,
   absent keys are ignored *)
Theorem C14_dict_set_existing_keeps_position : forall a v l, al_has a l = true -> map fst (al_set a v l) = map fst l.
Proof. exact al_set_existing. Qed.
Theorem C14_dict_set_new_appends : forall a v l, al_has a l = false -> al_set a v l = l ++ [(a, v)].
Proof. exact al_set_new. Qed.
Theorem C14_dict_get_after_set : forall a v l, NoDup (map fst l) -> al_get a (al_set a v l) = Some v.
Proof. exact al_get_set_same. Qed.
Theorem C14_dict_remove_absent_ignored : forall a l, al_has a l = false -> al_remove a l = l.
Proof. exact al_remove_absent. Qed.
Theorem C14_dict_rename_absent_ignored : forall a b l, al_has a l = false -> al_rename a b l = l.
Proof. exact al_rename_absent. Qed.

(* is_scalar / is_mapping / is_sequence classify every node *)
Theorem C14_classify : forall n,
  (is_scalar_node n = true /\ is_mapping n = false /\ is_sequence n = false) \/
  (is_scalar_node n = false /\ is_mapping n = true /\ is_sequence n = false) \/
  (is_scalar_node n = false /\ is_mapping n = false /\ is_sequence n = true).
Proof. exact classify. Qed.

(* set_value(v) then get_value() returns v, and is_scalar(type(v)) holds -- for nodes carrying a core tag.
   oracle_reads: PyYAML reads str(v) back as v (a premise about CPython/PyYAML, checked per case by the tie). *)
Theorem C14_set_then_get_partial : forall o v n,
  uprefix core_prefix_colon (ntag n) = true -> oracle_reads o v ->
  exists n', set_value v n = Ok n' /\ is_scalar_node n' = true /\
             is_scalar n' (TyK (kind_of_sval v)) = Ok true /\ get_value o n' = Ok (value_of_sval v).
Proof. exact set_then_get. Qed.
Print Assumptions C14_set_then_get_partial.
(* ... and the unrestricted statement is false of the code as it stands (known finding, see known_findings.json):
   set_value deliberately keeps a non-core tag such as !Foo *)
Theorem C14_set_then_get_refuted : exists o v n n',
  set_value v n = Ok n' /\ get_value o n' = Err (EPy PyRuntimeError) /\ is_scalar n' (TyK (kind_of_sval v)) = Ok false.
Proof. exact set_then_get_refuted. Qed.

(* remove_attributes_with_default_values never fails on a mapping with scalar keys, keeps the order of what
   it keeps, and removes exactly the defaulted attributes whose value node matches the default ... *)
Theorem C14_remove_defaults_total : forall o defaults t ps m, all_scalar_keys ps = true ->
  remove_defaults o defaults (Map t ps m) = Ok (Map t (filter (fun kv => negb (removed_by o defaults kv)) ps) m).
Proof. exact remove_defaults_total. Qed.
(* ... where matching is type-strict equality with the value PyYAML constructs: never a coercion *)
Theorem C14_default_matches_sound : forall o t v m d, default_matches o (Scalar t v m) d = true ->
  (t = tag_null /\ d = VNone) \/
  (t = tag_int /\ exists z, d = VInt z /\ olookup o tag_int v = Ok (VInt z)) \/
  (t = tag_float /\ exists h h', d = VFloat h /\ olookup o tag_float v = Ok (VFloat h') /\ float_eqb h' h = true) \/
  (t = tag_bool /\ exists b, d = VBool b) \/
  (t = tag_str /\ d = VStr v).
Proof. exact default_matches_sound. Qed.
Print Assumptions C14_default_matches_sound.

(* non-vacuity *)
Definition ex_map : list (node * node) :=
  [(Scalar tag_str (u "a") nomark, Scalar tag_int (u "1") nomark); (Scalar tag_str (u "b") nomark, Seq tag_seq [] nomark)].
Example C14_ex_wf : wf ex_map.
Proof.
  split; [repeat constructor|]. simpl. repeat constructor; simpl; intuition; discriminate.
Qed.
Example C14_ex_run :
  spec_run (abs ex_map) [OpSet (u "c") (PScalar (SvInt 7)); OpRename (u "a") (u "z"); OpRemove (u "b"); OpHas (u "z")]
  = Some ([(u "z", Scalar tag_int (u "1") nomark); (u "c", Scalar tag_int (u "7") genmark)], [RNone; RNone; RNone; RBool true]).
Proof. vm_compute. reflexivity. Qed.
