(* C03 -- polymorphic positions resolve to the unique most-derived match, never a guess.
   Proofs: Proofs/Polymorph.v, Proofs/WellTagged.v (recognize_sound).
   Independence of the order of Union members (C03_union_order) and of the REGISTRATION order
   (C03_registration_order, Proofs/RegOrder.v) are both proved; the latter for registries with distinct class names
   whose custom recognisers are functions of what their `recognised?` argument answers -- which holds for every
   recogniser written with UnknownNode.require_* calls (C03_dsl_recognisers_qualify). *)
From Coq Require Import NArith ZArith List Bool String Permutation.
Import ListNotations.
From Y Require Import Prelude Node Tables NodeOps Types Recognize Loader Hooks Spec WellTagged Polymorph RegOrder UnionOrder.
Open Scope N_scope.

(* Exactly one recognised type, or the load fails with RecognitionError: no guessing. *)
Theorem C03_exactly_one_or_fail : forall o reg f n T,
  (forall n', process o reg (S f) n T = Ok n' -> exists R e, recognize o reg (S f) n T = Ok ([R], e)) /\
  (forall tys e, recognize o reg (S f) n T = Ok (tys, e) -> List.length tys <> 1%nat ->
                 process o reg (S f) n T = Err ERecognition).
Proof. intros. split; [apply process_singleton | apply process_ambiguous_fails]. Qed.
Print Assumptions C03_exactly_one_or_fail.

(* Whatever a class position recognises is a registered, concrete (non-abstract) class that is the expected class
   or one of its registered descendants: abstract classes are never instantiated, unregistered ones never considered. *)
Theorem C03_candidates_registered_concrete : forall o reg, wf_registry reg ->
  forall fuel n c top res, registered reg c = true -> rec_classes o reg fuel n c top = Ok res ->
  Forall (fun R => exists d k, R = TClass d /\ rsub reg d c /\ find_cls reg d = Some k /\ c_abstract k = false) (fst res).
Proof. intros o reg Hreg fuel n c top res Hc E. exact (proj2 (recognize_sound o reg Hreg fuel) n c top res Hc E). Qed.
Print Assumptions C03_candidates_registered_concrete.

(* Most-derived: the candidates of a class position are what its registered direct subclasses recognise (recursively);
   the class itself is tried only when none of them matched and it is concrete; then `decide` is applied. *)
Theorem C03_most_derived : forall o reg f n c top k, find_cls reg c = Some k ->
  rec_classes o reg (S f) n c top = (own <- candidates o reg f n c k ;; Ok (decide reg n top own)).
Proof. exact rec_classes_eq. Qed.
Theorem C03_subclass_match_wins : forall o reg f n c k own subs, candidates o reg f n c k = Ok own ->
  rec_subs (fun d => rec_classes o reg f n d false) (direct_subclasses reg c) [] [] = Ok subs -> fst subs <> [] -> own = subs.
Proof. exact candidates_subclass_wins. Qed.
Theorem C03_abstract_not_candidate : forall o reg f n c k own, c_abstract k = true -> candidates o reg f n c k = Ok own ->
  rec_subs (fun d => rec_classes o reg f n d false) (direct_subclasses reg c) [] [] = Ok own.
Proof. exact candidates_abstract. Qed.

(* Several candidates: only an explicit tag naming one of them decides; otherwise all remain (and the load fails by
   C03_exactly_one_or_fail).  One candidate: a non-core tag naming anything else (incompatible or unknown) rejects it. *)
Theorem C03_tag_picks : forall reg n top own kt x y r,
  fst own = x :: y :: r -> class_of_tag reg (ntag n) = Some kt -> In (TClass (c_name kt)) (fst own) ->
  decide reg n top own = ([TClass (c_name kt)], rec_ok).
Proof. exact decide_tag_picks. Qed.
Theorem C03_ambiguous_stays_ambiguous : forall reg n top own x y r,
  fst own = x :: y :: r ->
  (forall kt, class_of_tag reg (ntag n) = Some kt -> ~ In (TClass (c_name kt)) (fst own)) ->
  fst (decide reg n top own) = fst own.
Proof. exact decide_ambiguous. Qed.
Theorem C03_tag_conflict_rejects : forall reg n top own x,
  fst own = [x] -> uprefix core_prefix (ntag n) = false ->
  (forall kt, class_of_tag reg (ntag n) = Some kt -> TClass (c_name kt) <> x) ->
  fst (decide reg n top own) = [].
Proof. exact decide_tag_conflict. Qed.
Theorem C03_decision_never_invents : forall reg n top own t, In t (fst (decide reg n top own)) -> In t (fst own).
Proof. exact decide_subset. Qed.
Print Assumptions C03_decision_never_invents.

(* The order of Union members is irrelevant: under any permutation the same set of members is recognised, and when
   exactly one is recognised it is the same one. *)
Theorem C03_union_order : forall rec ts ts' m tys e, Permutation ts ts' -> rec_union rec ts m = Ok (tys, e) ->
  exists tys' e', rec_union rec ts' m = Ok (tys', e') /\ (forall t, In t tys <-> In t tys') /\ (forall t, tys = [t] -> tys' = [t]).
Proof. exact rec_union_perm. Qed.
Print Assumptions C03_union_order.
(* ... hence for the whole load: a declared Union type may list its members in any order *)
Theorem C03_union_order_load : forall o reg doc ts ts' v, Permutation ts ts' ->
  (load o reg doc (TUnion ts) = Ok v <-> load o reg doc (TUnion ts') = Ok v).
Proof. exact UnionOrder.load_union_perm. Qed.
Print Assumptions C03_union_order_load.

(* The order in which the classes were registered is irrelevant: two registries that are permutations of each other
   load the same documents to the same values (and fail on the same documents). *)
Theorem C03_registration_order : forall o reg reg', Permutation reg reg' -> NoDup (map c_name reg) -> ext_hooks reg ->
  forall doc T v, load o reg doc T = Ok v <-> load o reg' doc T = Ok v.
Proof. exact load_order_iff. Qed.
Print Assumptions C03_registration_order.
(* at every node the same SET of types is recognised (the lists differ at most in order) *)
Theorem C03_registration_order_recognition : forall o fuel reg reg', Permutation reg reg' -> NoDup (map c_name reg) -> ext_hooks reg ->
  forall n T res, recognize o reg fuel n T = Ok res ->
  exists res', recognize o reg' fuel n T = Ok res' /\ (forall t, In t (fst res) <-> In t (fst res')) /\
               List.length (fst res) = List.length (fst res').
Proof.
  intros o fuel reg reg' HP Hnd Hext n T res E.
  destruct (proj1 (recognize_order o fuel reg reg' HP Hnd Hext) n T res E) as (res' & E' & Q).
  exists res'. split; [exact E'|]. split; [exact (proj1 Q) | exact (req_len _ _ Q)].
Qed.
Theorem C03_dsl_recognisers_qualify : forall o specs, ext_hooks (Hooks.interp_reg o specs).
Proof. exact interp_reg_ext_hooks. Qed.

(* ---- non-vacuity: Shape <- Circle, Square (both accept any mapping); a Shape position ---- *)
Local Open Scope string_scope.
Definition ex_cls (name : string) (bases : list string) (abstract : bool) : cls :=
  {| c_name := u name; c_bases := map u bases; c_ancestors := u name :: map u bases; c_abstract := abstract;
     c_shape := ShObj [] false; c_recognize := None; c_savorize := None; c_sweeten := None;
     c_init_ok := fun _ => true; c_str_ok := fun _ => true |}.
Definition ex_reg : registry := [ex_cls "Shape" ["object"] true; ex_cls "Circle" ["Shape"] false; ex_cls "Square" ["Shape"] false].
Definition ex_doc (tag : string) : node := Map (u tag) [] nomark.
Example C03_ex_ambiguous :
  option_map fst (match recognize [] ex_reg 10 (ex_doc "tag:yaml.org,2002:map") (TClass (u "Shape")) with Ok r => Some r | _ => None end)
    = Some [TClass (u "Circle"); TClass (u "Square")] /\
  process [] ex_reg 10 (ex_doc "tag:yaml.org,2002:map") (TClass (u "Shape")) = Err ERecognition.
Proof. vm_compute. split; reflexivity. Qed.
Example C03_ex_tag_decides :
  option_map fst (match recognize [] ex_reg 10 (ex_doc "!Square") (TClass (u "Shape")) with Ok r => Some r | _ => None end)
    = Some [TClass (u "Square")] /\
  option_map fst (match recognize [] ex_reg 10 (ex_doc "!Shape") (TClass (u "Shape")) with Ok r => Some r | _ => None end)
    = Some [] /\        (* the tag names the abstract base: it conflicts with each concrete candidate *)
  option_map fst (match recognize [] ex_reg 10 (ex_doc "!Nope") (TClass (u "Circle")) with Ok r => Some r | _ => None end)
    = Some [].
Proof. vm_compute. repeat split; reflexivity. Qed.
