(* C04 -- a document cannot cause construction of objects the type model does not call for.
   Proofs: Proofs/InitIrrelevant.v, on top of the C01 invariants.  What the model cannot exhibit (that
   yaml.SafeLoader imports or calls nothing named by the document) is observed by the tie with a canary
   module and an audit hook (harness/props/c04.py). *)
From Coq Require Import NArith ZArith List Bool String.
Import ListNotations.
From Y Require Import Prelude Node Tables NodeOps Types Recognize Loader Spec Conform Conform2 WellTagged WellTagged2
     InitIrrelevant.
Open Scope N_scope.

(* Construction happens only after the whole document was processed (load = process ;; construct), and on a
   processed document the user constructors are invoked only with keyword arguments that conform to their own
   signature: replace every constructor by one that behaves arbitrarily on non-conforming arguments -- for
   nodes of any class, admitted at that position or not -- and nothing changes, on succeeding and on failing
   loads alike. *)
Theorem C04_constructors_only_see_conforming_arguments : forall init o reg fuel f n T n',
  wf_registry reg -> oracle_wf o ->
  (forall k args, In k reg -> conforms reg (VObj (c_name k) args) (TClass (c_name k)) -> init k args = c_init_ok k args) ->
  process o reg fuel n T = Ok n' ->
  construct o (with_init init reg) f n' = construct o reg f n'.
Proof.
  intros init o reg fuel f n T n' Hr Ho Hag Hp.
  eapply construct_init_irrelevant; eauto. eapply process_well_tagged; eauto.
Qed.
Print Assumptions C04_constructors_only_see_conforming_arguments.

(* ... and an object is built only at a position whose declared type admits its class (C01, read for classes) *)
Theorem C04_only_admitted_classes : forall o reg doc T v d kw,
  wf_registry reg -> oracle_wf o -> load o reg doc T = Ok v -> v = VObj d kw ->
  forall c, T = TClass c -> rsub reg d c /\ registered reg d = true.
Proof.
  intros o reg doc T v d kw Hr Ho E -> c ->. pose proof (load_conforms o reg Hr Ho doc _ _ E) as Hc.
  inversion Hc; subst. split; [assumption|]. unfold registered.
  match goal with H : find_cls reg d = Some _ |- _ => rewrite H end. reflexivity.
Qed.

(* positions typed Any (hence untyped parameters, whose type is Any) hold plain data whatever tags the
   document carries there; extra attributes arrive as a mapping of plain data *)
Theorem C04_any_is_plain : forall o reg doc v,
  wf_registry reg -> oracle_wf o -> load o reg doc TAny = Ok v -> plain v.
Proof. intros o reg doc v Hr Ho E. apply (conforms_any_plain reg). eapply load_conforms; eauto. Qed.
Theorem C04_conforming_any_is_plain : forall reg v, conforms reg v TAny -> plain v.
Proof. exact conforms_any_plain. Qed.
Theorem C04_stripped_constructs_plain : forall o reg fuel n v,
  oracle_wf o -> stripped n -> construct o reg fuel n = Ok v -> plain v.
Proof. intros. eapply stripped_plain; eauto. Qed.
Theorem C04_strip_tags_strips : forall n, stripped (strip_tags n).
Proof. exact strip_tags_stripped. Qed.
Print Assumptions C04_any_is_plain.

(* non-vacuity: a !Registered tag and a !!python/object tag under an Any position are ignored *)
Local Open Scope string_scope.
Example C04_ex :
  construct [((tag_bool, u "true"), Ok (VBool true))] [] 10
    (strip_tags (Map (u "!Evil") [(Scalar tag_str (u "k") nomark,
                                  Seq (u "tag:yaml.org,2002:python/object/apply:os.system")
                                      [Scalar (u "!Evil") (u "true") nomark; Scalar (u "!Evil") (u "x") nomark] nomark)] nomark))
  = Ok (VDict [(VStr (u "k"), VList [VBool true; VStr (u "x")])]).
Proof. vm_compute. reflexivity. Qed.
