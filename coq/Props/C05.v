(* C05 -- loading what was dumped gives back an equal object (YAML round trip).
   Proofs: Proofs/RoundTrip.v (text level), Proofs/DumpProofs.v.  The class-level structural part
   (load (represent v) = v) is tied to the implementation and evaluated per case, not proved: see C05_roundtrip_partial. *)
From Coq Require Import NArith ZArith List Bool String.
Import ListNotations.
From Y Require Import Prelude Node Re Resolve Images Tables NodeOps Types Recognize Loader Hooks Represent DumpProofs RoundTrip
                      PlainRoundTrip SweetenKeeps ClassRoundTrip.
Open Scope N_scope.

(* A string that the dumper's resolver regards as a plain str -- and may therefore write without quotes -- is a str for
   yatiml's loader too: number-, bool-, null- and date-look-alikes of YAML 1.1 AND 1.2, of every length. *)
Theorem C05_str_stays_str : forall s, valid s = true -> resolve dumper_tbl s = tag_str -> resolve loader_tbl s = tag_str.
Proof. exact loader_str_stays_str. Qed.
Print Assumptions C05_str_stays_str.

(* What the representers write for ints (of every size), floats (incl. non-finite), dates and datetimes is resolved by the
   loader to the same tag. *)
Theorem C05_int_texts : forall z, resolve loader_tbl (z_to_dec z) = tag_int.
Proof. intros z. exact (proj2 (image_check_sound loader_tbl tag_int int_image cert_l_int _ (z_to_dec_image z))). Qed.
Theorem C05_float_texts : forall s, matches float_image s = true -> resolve loader_tbl s = tag_float.
Proof. intros s H. exact (proj2 (image_check_sound loader_tbl tag_float float_image cert_l_float s H)). Qed.
Theorem C05_date_texts : forall s, matches date_image s = true \/ matches datetime_image s = true -> resolve loader_tbl s = tag_timestamp.
Proof.
  intros s [H|H].
  - exact (proj2 (image_check_sound loader_tbl tag_timestamp date_image cert_l_date s H)).
  - exact (proj2 (image_check_sound loader_tbl tag_timestamp datetime_image cert_l_datetime s H)).
Qed.
Print Assumptions C05_date_texts.

(* Hence: composing the dumped text gives back exactly the tree the representers built, for values of every size and
   shape and for EVERY quoting decision the emitter takes (plain_ok arbitrary).  User sweeteners must not themselves
   create unstable scalars (sweeten_keeps). *)
Theorem C05_reparse_identity : forall o reg,
  sweeten_keeps reg (fun n => rt_stable loader_tbl n = true) ->
  forall plain_ok fuel v n, leaves_ok o v = true -> represent o reg fuel v = Ok n ->
  reparse loader_tbl plain_ok n = n.
Proof.
  intros o reg HK plain_ok fuel v n HL E. apply loader_reparse. eapply loader_stable; eassumption.
Qed.
Print Assumptions C05_reparse_identity.

(* The round trip for class-typed values, reduced to the node level: loading the dumped text is loading the represented tree. *)
Theorem C05_roundtrip_partial : forall o reg T,
  sweeten_keeps reg (fun n => rt_stable loader_tbl n = true) ->
  forall plain_ok fuel v n, leaves_ok o v = true -> represent o reg fuel v = Ok n ->
  load o reg (Some (reparse loader_tbl plain_ok n)) T = load o reg (Some n) T.
Proof.
  intros o reg T HK plain_ok fuel v n HL E. rewrite (C05_reparse_identity o reg HK plain_ok fuel v n HL E). reflexivity.
Qed.
(* what remains tied only: class-typed values outside the flat fragment below (hierarchies, hooks, _yatiml_extra, Unions) *)

(* For plain data -- strings, numbers, booleans, null, dates, lists, dicts with hashable pairwise different keys, of every
   size and nesting -- the round trip is proved in full: dumping and loading with no declared type gives back the value,
   whatever quoting the emitter chose. *)
Theorem C05_roundtrip_plain_data : forall o reg, sweeten_keeps reg (fun n => rt_stable loader_tbl n = true) ->
  forall plain_ok v n, plain_rt v = true -> leaves_ok o v = true -> represent o reg FUEL v = Ok n ->
  load o reg (Some (reparse loader_tbl plain_ok n)) TAny = Ok v.
Proof.
  intros o reg HK plain_ok v n Hp HL E.
  rewrite (C05_reparse_identity o reg HK plain_ok FUEL v n HL E). apply load_any_of_represented; assumption.
Qed.
Print Assumptions C05_roundtrip_plain_data.

(* For CLASS-typed values the round trip is proved in full on the fragment where "unambiguous" is syntactic: registries
   without hooks, subclass relations and _yatiml_extra (flat), types built from built-ins, Path, lists, str-keyed dicts,
   enums, string-likes, classes and Optional of these; values well-typed on the dump side (vt: objects list all their
   parameters in declaration order, Paths in normal form, dict keys pairwise different).  Objects of every nesting depth
   (up to the fuel bound 3*depth + 2 <= 200), every quoting decision of the emitter. *)
Theorem C05_roundtrip_classes : forall o reg, flat reg ->
  (forall c k, find_cls reg c = Some k -> In c (c_ancestors k)) -> find_cls reg (u "Path") = None ->
  forall plain_ok g h v n T, ftype_r reg T = true -> vt o reg h v T = true -> leaves_ok o v = true ->
  represent o reg g v = Ok n -> (3 * g + 2 <= FUEL)%nat ->
  load o reg (Some (reparse loader_tbl plain_ok n)) T = Ok v.
Proof.
  intros o reg Hflat Hself Hpath plain_ok g h v n T HF HV HL E Hg.
  rewrite (C05_reparse_identity o reg) with (fuel := g) (v := v); try assumption.
  - eapply class_roundtrip; eassumption.
  - intros c k hk x y Ek Eh. destruct (Hflat c k Ek) as ((_ & _ & Hs & _) & _). rewrite Hs in Eh. discriminate Eh.
Qed.
Print Assumptions C05_roundtrip_classes.

(* The sweeteners yatiml itself offers for dumping only delete attributes; registries whose sweeten hooks are built from
   them satisfy the hypothesis sweeten_keeps (for the round trip and for tag-freeness alike). *)
Theorem C05_deleting_sweeteners_keep : forall o specs p,
  Forall (fun s => match Hooks.s_sweeten s with Some prog => forallb deleting_prog prog = true | None => True end) specs ->
  sweeten_keeps (Hooks.interp_reg o specs) (fun n => shape_ok p n = true).
Proof. exact deleting_registry_keeps. Qed.

(* non-vacuity: the strings that used to break the round trip *)
Local Open Scope string_scope.
Example C05_ex_lookalikes :
  map (resolve dumper_tbl) [u "1e5"; u "+.0"; u "1.e5"; u "abc"; u "1e"] = [tag_float; tag_float; tag_float; tag_str; tag_str] /\
  map (resolve loader_tbl) [u "1e5"; u "+.0"; u "1.e5"; u "abc"; u "1e"] = [tag_float; tag_float; tag_float; tag_str; tag_str].
Proof. vm_compute. split; reflexivity. Qed.
Example C05_ex_stable : rt_stable loader_tbl (Map tag_map [(Scalar tag_str (u "k") genmark, Scalar tag_str (u "abc") genmark);
                                                 (Scalar tag_str (u "n") genmark, Scalar tag_int (u "12") genmark)] genmark) = true.
Proof. vm_compute. reflexivity. Qed.
Example C05_ex_plain :
  let o := [((tag_int, u "7"), Ok (VInt 7)); ((tag_null, u "null"), Ok VNone)] in
  let v := VDict [(VStr (u "1e5"), VList [VInt 7; VNone]); (VInt 7, VStr (u "yes"))] in
  plain_rt v = true /\ leaves_ok o v = true /\
  (n <- represent o [] FUEL v ;; load o [] (Some (reparse loader_tbl (fun _ => true) n)) TAny) = Ok v.
Proof. vm_compute. repeat split; reflexivity. Qed.

(* non-vacuity of the class-level theorem: a flat registry with an enum, a nested class, an Optional and a list *)
Definition ex_cls (name : string) (sh : shape) : cls :=
  {| c_name := u name; c_bases := [u "object"]; c_ancestors := [u name; u "object"]; c_abstract := false; c_shape := sh;
     c_recognize := None; c_savorize := None; c_sweeten := None; c_init_ok := fun _ => true; c_str_ok := fun _ => true |}.
Definition ex_reg : registry :=
  [ex_cls "Color" (ShEnum [u "red"; u "true"]);
   ex_cls "Point" (ShObj [{| p_name := u "x"; p_ty := TInt; p_required := true |};
                          {| p_name := u "label"; p_ty := TUnion [TStr; TNone]; p_required := false |}] false);
   ex_cls "Shape" (ShObj [{| p_name := u "color"; p_ty := TClass (u "Color"); p_required := true |};
                          {| p_name := u "pts"; p_ty := TList 0 (TClass (u "Point")); p_required := true |}] false)].
Definition ex_o : oracle :=
  [((tag_int, u "1"), Ok (VInt 1)); ((tag_int, u "-2"), Ok (VInt (-2))); ((tag_null, u "null"), Ok VNone)].
Definition ex_v : value :=
  VObj (u "Shape") [(u "color", VEnum (u "Color") (u "true"));
                    (u "pts", VList [VObj (u "Point") [(u "x", VInt 1); (u "label", VStr (u "1e5"))];
                                     VObj (u "Point") [(u "x", VInt (-2)); (u "label", VNone)]])].
Example C05_ex_classes_premises :
  vt ex_o ex_reg 10 ex_v (TClass (u "Shape")) = true /\ leaves_ok ex_o ex_v = true /\ ftype_r ex_reg (TClass (u "Shape")) = true.
Proof. vm_compute. repeat split; reflexivity. Qed.
Example C05_ex_classes_flat : flat ex_reg.
Proof.
  intros c k H. unfold ex_reg in H. cbn [find_cls] in H.
  repeat match type of H with (if ?b then _ else _) = _ => destruct b eqn:? end; try discriminate H; injection H as <-;
    (split; [|match goal with E : ueqb _ c = true |- _ => apply ueqb_eq in E; exact E end]);
    repeat split; try reflexivity; try (intros X; revert X; vm_compute; intuition discriminate);
    try (repeat constructor; vm_compute; intuition discriminate).
Qed.
Example C05_ex_classes_roundtrip :
  (n <- represent ex_o ex_reg 10 ex_v ;; load ex_o ex_reg (Some (reparse loader_tbl (fun _ => false) n)) (TClass (u "Shape"))) = Ok ex_v.
Proof. vm_compute. reflexivity. Qed.
