(* C13 -- load is invariant under changes that do not alter the document's meaning.
   Proofs: Proofs/Invariance.v, Proofs/Polymorph.v.
   Theorems: (a) a load never consults a mark: trees that differ only in marks load alike (C13_marks_irrelevant) -- the
   node model has no style component at all, marks (source positions) being the only trace of how the text was laid
   out, so this is the model-level content of "re-serialised in another style with the same node tags"; that the
   IMPLEMENTATION reads no style is what the metamorphic tie checks; (b) the changes of the TYPE MODEL at the position
   where they are made (abstract container annotations, bool_union_fix, order of Union members).  Their propagation
   through enclosing types is decided by the metamorphic tie (implementation against itself on every generated case), not by
   theorems; (c) the registration of unrelated classes (C13_unrelated_classes*, Proofs/Unrelated.v, Unrelated2.v), for registries
   without custom recognisers and savorize hooks (with hooks: tie); (d) the reordering of the keys of a mapping loaded as a class
   (C13_key_order, Proofs/KeyOrder.v), for registries without custom recognisers and savorize hooks (with hooks: tie). *)
From Coq Require Import NArith ZArith List Bool String Permutation.
Import ListNotations.
From Y Require Import Prelude Node Tables NodeOps Types Recognize Loader Hooks Spec Polymorph Invariance Marks KeyOrder Unrelated Unrelated2 UnionOrder.
Open Scope N_scope.

(* Marks are never consulted: two node trees that differ only in their marks (eqm) load to the same value or fail with
   the same exception class, at every type, for registries whose hooks do not look at marks themselves. *)
Theorem C13_marks_irrelevant : forall o reg, hooks_mark_free reg ->
  forall x y T, eqm x y -> load o reg (Some x) T = load o reg (Some y) T.
Proof. intros o reg Hh x y T E. apply load_eqm; assumption. Qed.
Print Assumptions C13_marks_irrelevant.
(* ... at every node the same types are recognised, and processing yields trees that again differ only in marks *)
Theorem C13_marks_irrelevant_recognition : forall o reg, hooks_mark_free reg ->
  forall fuel x y T, eqm x y -> sameT (recognize o reg fuel x T) (recognize o reg fuel y T).
Proof. intros o reg Hh fuel x y T E. exact (proj1 (recognize_eqm o reg Hh fuel) x y T E). Qed.
Theorem C13_marks_irrelevant_processing : forall o reg, hooks_mark_free reg ->
  forall fuel x y T, eqm x y -> eqmR (process o reg fuel x T) (process o reg fuel y T).
Proof. intros o reg Hh. exact (process_eqm o reg Hh). Qed.
(* which hooks qualify: none at all, and every recogniser written with UnknownNode.require_* calls *)
Theorem C13_hook_free_registries_qualify : forall reg,
  (forall k, In k reg -> c_recognize k = None /\ c_savorize k = None) -> hooks_mark_free reg.
Proof. exact no_hooks_mark_free. Qed.
Theorem C13_dsl_recognisers_qualify : forall o prog, hook_rec_ok (fun recog n => run_recognizer o recog prog n).
Proof. exact dsl_recogniser_mark_free. Qed.

(* List / Sequence / MutableSequence are interchangeable: processing a node as one or the other gives the same node,
   for nodes of every size (elements processed identically). *)
Theorem C13_sequence_annotations : forall o reg f n k k' t, is_seq_origin k = true -> is_seq_origin k' = true ->
  process o reg (S f) n (TList k t) = process o reg (S f) n (TList k' t).
Proof. exact process_list_origin. Qed.
Print Assumptions C13_sequence_annotations.
Theorem C13_mapping_annotations : forall o reg f n k k' kt vt, is_map_origin k = true -> is_map_origin k' = true ->
  process o reg (S f) n (TDict k kt vt) = process o reg (S f) n (TDict k' kt vt).
Proof. exact process_dict_origin. Qed.
Print Assumptions C13_mapping_annotations.
(* hence the whole load at such a top-level type *)
Theorem C13_load_sequence_annotations : forall o reg doc k k' t, is_seq_origin k = true -> is_seq_origin k' = true ->
  load o reg doc (TList k t) = load o reg doc (TList k' t).
Proof.
  intros o reg doc k k' t Hk Hk'. unfold load, FUEL.
  destruct doc; rewrite (process_list_origin o reg _ _ k k' t Hk Hk'); reflexivity.
Qed.

Theorem C13_load_mapping_annotations : forall o reg doc k k' kt vt, is_map_origin k = true -> is_map_origin k' = true ->
  load o reg doc (TDict k kt vt) = load o reg doc (TDict k' kt vt).
Proof. exact UnionOrder.load_dict_origin. Qed.
Print Assumptions C13_load_mapping_annotations.

(* Adding bool_union_fix to a Union that contains bool: the same members are recognised, and the same single member. *)
Theorem C13_bool_union_fix : forall o reg f n ts m tys e, In TBool ts ->
  rec_union (recognize o reg (S f) n) ts m = Ok (tys, e) ->
  exists tys' e', rec_union (recognize o reg (S f) n) (ts ++ [TBoolFix]) m = Ok (tys', e') /\
                  (forall t, In t tys <-> In t tys') /\ (forall t, tys = [t] -> tys' = [t]).
Proof. intros o reg f n ts m tys e. apply boolfix_irrelevant, recognize_boolfix. Qed.
Print Assumptions C13_bool_union_fix.
(* ... hence a document that loads at a declared Union containing bool loads to the same value with bool_union_fix added *)
Theorem C13_load_bool_union_fix : forall o reg doc ts v, In TBool ts ->
  load o reg doc (TUnion ts) = Ok v -> load o reg doc (TUnion (ts ++ [TBoolFix])) = Ok v.
Proof. exact UnionOrder.load_boolfix. Qed.
Print Assumptions C13_load_bool_union_fix.
(* ... and the members of the declared Union may come in any order (C03_union_order_load) *)
Theorem C13_load_union_member_order : forall o reg doc ts ts' v, Permutation ts ts' ->
  (load o reg doc (TUnion ts) = Ok v <-> load o reg doc (TUnion ts') = Ok v).
Proof. exact UnionOrder.load_union_perm. Qed.
Print Assumptions C13_load_union_member_order.

(* The order in which the members of a Union are written is irrelevant (shared with C03). *)
Theorem C13_union_member_order : forall rec ts ts' m tys e, Permutation ts ts' -> rec_union rec ts m = Ok (tys, e) ->
  exists tys' e', rec_union rec ts' m = Ok (tys', e') /\ (forall t, In t tys <-> In t tys') /\ (forall t, tys = [t] -> tys' = [t]).
Proof. exact rec_union_perm. Qed.

(* non-vacuity: the three sequence annotations are origins of the generated table; a bool is recognised alike *)
(* The keys of a mapping loaded as a class may come in any order: for every registry without custom recognisers and savorize
   hooks (any hierarchy, any parameter types), every mapping with distinct scalar keys and every permutation of its pairs, if
   the load succeeds with an object of a class that takes no _yatiml_extra, the permuted mapping loads to the IDENTICAL value.
   (With _yatiml_extra the extra attributes arrive in document order, so only the order inside that ordered mapping follows
   the document; failure is preserved as well, by symmetry: apply the theorem to the inverse permutation.)  Recognition of
   the two mappings is literally the same function (C13_key_order_recognition), for every class type. *)
Theorem C13_key_order : forall o reg, no_recognisers reg -> no_savorizers reg ->
  forall t ps ps' m c v, Permutation ps ps' -> scalar_keys ps -> NoDup (keys ps) ->
  load o reg (Some (Map t ps m)) (TClass c) = Ok v ->
  (forall d k params ex args, v = VObj d args -> find_cls reg d = Some k -> c_shape k = ShObj params ex -> ex = false) ->
  load o reg (Some (Map t ps' m)) (TClass c) = Ok v.
Proof. exact load_key_order. Qed.
Print Assumptions C13_key_order.
Theorem C13_key_order_recognition : forall o reg, no_recognisers reg ->
  forall t ps ps' m c f, Permutation ps ps' -> scalar_keys ps -> NoDup (keys ps) ->
  recognize o reg f (Map t ps m) (TClass c) = recognize o reg f (Map t ps' m) (TClass c).
Proof. intros o reg Hr t ps ps' m c f HP Hs Hn. apply recognize_class_same; [exact Hr | apply perm_same; assumption]. Qed.
Print Assumptions C13_key_order_recognition.
(* both directions at once for registries in which no class takes _yatiml_extra: same value or both fail *)
Theorem C13_key_order_iff : forall o reg, no_recognisers reg -> no_savorizers reg ->
  (forall k params ex, In k reg -> c_shape k = ShObj params ex -> ex = false) ->
  forall t ps ps' m c v, Permutation ps ps' -> scalar_keys ps -> NoDup (keys ps) ->
  (load o reg (Some (Map t ps m)) (TClass c) = Ok v <-> load o reg (Some (Map t ps' m)) (TClass c) = Ok v).
Proof.
  intros o reg Hr Hs Hex t ps ps' m c v HP Hk Hn.
  assert (G : forall d k params ex args, v = VObj d args -> find_cls reg d = Some k -> c_shape k = ShObj params ex -> ex = false).
  { intros d k params ex args _ Ek Es. eapply Hex; [|exact Es]. exact (proj1 (RegOrder.find_cls_In _ _ _ Ek)). }
  split; intros E.
  - eapply load_key_order; eauto.
  - eapply load_key_order; [exact Hr | exact Hs | apply Permutation_sym, HP | | | exact E | exact G].
    + unfold scalar_keys in *. rewrite Forall_forall in *. intros kv Hin. apply Hk. eapply Permutation_in; [apply Permutation_sym, HP | exact Hin].
    + eapply Permutation_NoDup; [|exact Hn]. unfold keys. apply Permutation_map, HP.
Qed.
Print Assumptions C13_key_order_iff.

Example C13_ex_origins : map is_seq_origin [0; 1; 2]%nat = [true; true; true] /\ map is_map_origin [3; 4; 5]%nat = [true; true; true].
Proof. vm_compute. split; reflexivity. Qed.
Example C13_ex_boolfix :
  option_map fst (match recognize [] [] 5 (Scalar tag_bool (u "true") nomark) (TUnion [TInt; TBool]) with Ok r => Some r | _ => None end)
    = Some [TBool] /\
  option_map fst (match recognize [] [] 5 (Scalar tag_bool (u "true") nomark) (TUnion [TInt; TBool; TBoolFix]) with Ok r => Some r | _ => None end)
    = Some [TBool].
Proof. vm_compute. split; reflexivity. Qed.

(* ... and with _yatiml_extra: the extra attributes are handed over in document order, so the permuted mapping loads to the same
   object EXCEPT for the order inside its _yatiml_extra mapping -- provided the user constructors do not look at that order. *)
Theorem C13_key_order_extras : forall o reg, no_recognisers reg -> no_savorizers reg ->
  forall t ps ps' m c v, Permutation ps ps' -> scalar_keys ps -> NoDup (keys ps) ->
  load o reg (Some (Map t ps m)) (TClass c) = Ok v ->
  (forall k main ex ex', In k reg -> Permutation ex ex' ->
     c_init_ok k (main ++ [(extra_name, VDict ex)]) = c_init_ok k (main ++ [(extra_name, VDict ex')])) ->
  exists v', load o reg (Some (Map t ps' m)) (TClass c) = Ok v' /\ (v' = v \/ same_upto_extras v v').
Proof. exact load_key_order_extra. Qed.
Print Assumptions C13_key_order_extras.

(* Registering unrelated classes: reg ++ ext, where the classes of ext have fresh names, neither derive from classes of reg
   nor are bases of them, are mentioned by no parameter type of reg, and reg has no custom recognisers / savorize hooks (ext may
   have any).  Then at every type that does not mention ext, EVERY node -- whatever tags it carries, including tags naming
   classes of ext -- is recognised as the same types with the same error tree and processed into the same tree: the two
   registries give literally the same recognition and processing functions.  For documents none of whose tags names a class of
   ext (no other restriction on tags: core tags, tags naming classes of reg, unknown tags) the WHOLE LOAD is the same function:
   same value or same error (C13_unrelated_classes); the isinstance-based checks of the constructor only ever see classes of reg. *)
Theorem C13_unrelated_classes_recognition : forall o reg ext, unrelated reg ext ->
  forall f n T, avoid ext T -> recognize o (reg ++ ext) f n T = recognize o reg f n T.
Proof. intros o reg ext U f. exact (proj1 (recognize_unrelated o reg ext U f)). Qed.
Print Assumptions C13_unrelated_classes_recognition.
Theorem C13_unrelated_classes_processing : forall o reg ext, unrelated reg ext ->
  forall f n T, avoid ext T -> process o (reg ++ ext) f n T = process o reg f n T.
Proof. exact process_unrelated. Qed.
Print Assumptions C13_unrelated_classes_processing.

Theorem C13_unrelated_classes : forall o reg ext, unrelated reg ext -> oracle_wf o -> find_cls ext (u "Path") = None ->
  forall n T, avoid ext T -> tags_ok ext n -> load o (reg ++ ext) (Some n) T = load o reg (Some n) T.
Proof. exact load_unrelated. Qed.
Print Assumptions C13_unrelated_classes.

(* non-vacuity of C13_key_order: a hook-free registry, a mapping with distinct scalar keys that loads, and its reversal *)
Local Open Scope string_scope.
Definition ex_ko : cls :=
  {| c_name := u "P"; c_bases := [u "object"]; c_ancestors := [u "P"; u "object"]; c_abstract := false;
     c_shape := ShObj [{| p_name := u "a"; p_ty := TInt; p_required := true |}; {| p_name := u "b"; p_ty := TStr; p_required := true |}] false;
     c_recognize := None; c_savorize := None; c_sweeten := None; c_init_ok := fun _ => true; c_str_ok := fun _ => true |}.
Definition ex_ko_pairs : list (node * node) :=
  [(Scalar tag_str (u "b") nomark, Scalar tag_str (u "x") nomark); (Scalar tag_str (u "a") nomark, Scalar tag_int (u "1") nomark)].
Example C13_ex_key_order :
  no_recognisers [ex_ko] /\ no_savorizers [ex_ko] /\ scalar_keys ex_ko_pairs /\ NoDup (keys ex_ko_pairs) /\
  Permutation ex_ko_pairs (rev ex_ko_pairs) /\
  load [((tag_int, u "1"), Ok (VInt 1))] [ex_ko] (Some (Map tag_map ex_ko_pairs nomark)) (TClass (u "P"))
    = Ok (VObj (u "P") [(u "a", VInt 1); (u "b", VStr (u "x"))]) /\
  load [((tag_int, u "1"), Ok (VInt 1))] [ex_ko] (Some (Map tag_map (rev ex_ko_pairs) nomark)) (TClass (u "P"))
    = Ok (VObj (u "P") [(u "a", VInt 1); (u "b", VStr (u "x"))]).
Proof.
  split; [intros k [<-|[]]; reflexivity|]. split; [intros k [<-|[]]; reflexivity|].
  split; [repeat constructor|]. split.
  - unfold keys, ex_ko_pairs. cbn [map fst key_text']. constructor; [intros [H|[]]; apply ueqb_eq in H; vm_compute in H; discriminate H|].
    constructor; [intros []|constructor].
  - split; [apply Permutation_rev|]. vm_compute. split; reflexivity.
Qed.

(* non-vacuity of the unrelated-classes theorems *)
Definition ex_q : cls :=
  {| c_name := u "Q"; c_bases := [u "object"]; c_ancestors := [u "Q"; u "object"]; c_abstract := false;
     c_shape := ShObj [{| p_name := u "z"; p_ty := TClass (u "Q"); p_required := false |}] true;
     c_recognize := Some (fun _ _ => true); c_savorize := None; c_sweeten := None; c_init_ok := fun _ => true; c_str_ok := fun _ => true |}.
Example C13_ex_unrelated : unrelated [ex_ko] [ex_q] /\ avoid [ex_q] (TUnion [TClass (u "P"); TList 0 TInt]).
Proof.
  split; [constructor|].
  - intros k [<-|[]]. reflexivity.
  - intros k [<-|[]]. reflexivity.
  - intros k b [<-|[]] [<-|[]]. reflexivity.
  - intros k b [<-|[]] [<-|[]]. reflexivity.
  - intros k [<-|[]]. reflexivity.
  - intros k [<-|[]]. reflexivity.
  - intros k p [<-|[]] [<-|[<-|[]]]; exact I.
  - cbn. repeat split.
Qed.
Example C13_ex_unrelated_doc :
  oracle_wf [((tag_int, u "1"), Ok (VInt 1))] /\ find_cls [ex_q] (u "Path") = None /\ tags_ok [ex_q] (Map tag_map ex_ko_pairs nomark) /\
  load [((tag_int, u "1"), Ok (VInt 1))] ([ex_ko] ++ [ex_q])%list (Some (Map tag_map ex_ko_pairs nomark)) (TClass (u "P"))
    = Ok (VObj (u "P") [(u "a", VInt 1); (u "b", VStr (u "x"))]).
Proof.
  split.
  - apply Conform.oracle_wfb_sound. vm_compute. reflexivity.
  - split; [reflexivity|]. split; [|vm_compute; reflexivity]. cbn. repeat split.
Qed.
