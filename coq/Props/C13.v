(* C13 -- load is invariant under changes that do not alter the document's meaning.
   Proofs: Proofs/Invariance.v, Proofs/Polymorph.v.
   Theorems: (a) a load never consults a mark: trees that differ only in marks load alike (C13_marks_irrelevant) -- the
   node model has no style component at all, marks (source positions) being the only trace of how the text was laid
   out, so this is the model-level content of "re-serialised in another style with the same node tags"; that the
   IMPLEMENTATION reads no style is what the metamorphic tie checks; (b) the changes of the TYPE MODEL at the position
   where they are made (abstract container annotations, bool_union_fix, order of Union members).  Their propagation
   through enclosing types, the reordering of class-mapping keys and the registration of unrelated classes are decided by
   the metamorphic tie (implementation against itself on every generated case), not by theorems. *)
From Coq Require Import NArith ZArith List Bool String Permutation.
Import ListNotations.
From Y Require Import Prelude Node Tables NodeOps Types Recognize Loader Hooks Spec Polymorph Invariance Marks.
Open Scope N_scope.

(* Marks are never consulted: two node trees that differ only in their marks (eqm) load to the same value or fail with
   the same exception class, at every type, for registries whose hooks do not look at marks themselves. *)
Theorem C13_marks_irrelevant : forall o reg, hooks_mark_free reg ->
  forall x y T, eqm x y -> load o reg (Some x) T = load o reg (Some y) T.
Proof. intros o reg Hh x y T E. apply load_eqm; assumption. Qed.
Print Assumptions C13_marks_irrelevant.
(* ... at every node the same types are recognised, and processing yields trees that again differ only in marks *)
Theorem C13_marks_irrelevant_recognition : forall o reg, hooks_mark_free reg ->
  forall fuel x y T, eqm x y -> sameT (recognize o reg fuel x T) (recognize o reg fuel y T).
Proof. intros o reg Hh fuel x y T E. exact (proj1 (recognize_eqm o reg Hh fuel) x y T E). Qed.
Theorem C13_marks_irrelevant_processing : forall o reg, hooks_mark_free reg ->
  forall fuel x y T, eqm x y -> eqmR (process o reg fuel x T) (process o reg fuel y T).
Proof. intros o reg Hh. exact (process_eqm o reg Hh). Qed.
(* which hooks qualify: none at all, and every recogniser written with UnknownNode.require_* calls *)
Theorem C13_hook_free_registries_qualify : forall reg,
  (forall k, In k reg -> c_recognize k = None /\ c_savorize k = None) -> hooks_mark_free reg.
Proof. exact no_hooks_mark_free. Qed.
Theorem C13_dsl_recognisers_qualify : forall o prog, hook_rec_ok (fun recog n => run_recognizer o recog prog n).
Proof. exact dsl_recogniser_mark_free. Qed.

(* List / Sequence / MutableSequence are interchangeable: processing a node as one or the other gives the same node,
   for nodes of every size (elements processed identically). *)
Theorem C13_sequence_annotations : forall o reg f n k k' t, is_seq_origin k = true -> is_seq_origin k' = true ->
  process o reg (S f) n (TList k t) = process o reg (S f) n (TList k' t).
Proof. exact process_list_origin. Qed.
Print Assumptions C13_sequence_annotations.
Theorem C13_mapping_annotations : forall o reg f n k k' kt vt, is_map_origin k = true -> is_map_origin k' = true ->
  process o reg (S f) n (TDict k kt vt) = process o reg (S f) n (TDict k' kt vt).
Proof. exact process_dict_origin. Qed.
Print Assumptions C13_mapping_annotations.
(* hence the whole load at such a top-level type *)
Theorem C13_load_sequence_annotations : forall o reg doc k k' t, is_seq_origin k = true -> is_seq_origin k' = true ->
  load o reg doc (TList k t) = load o reg doc (TList k' t).
Proof.
  intros o reg doc k k' t Hk Hk'. unfold load, FUEL.
  destruct doc; rewrite (process_list_origin o reg _ _ k k' t Hk Hk'); reflexivity.
Qed.

(* Adding bool_union_fix to a Union that contains bool: the same members are recognised, and the same single member. *)
Theorem C13_bool_union_fix : forall o reg f n ts m tys e, In TBool ts ->
  rec_union (recognize o reg (S f) n) ts m = Ok (tys, e) ->
  exists tys' e', rec_union (recognize o reg (S f) n) (ts ++ [TBoolFix]) m = Ok (tys', e') /\
                  (forall t, In t tys <-> In t tys') /\ (forall t, tys = [t] -> tys' = [t]).
Proof. intros o reg f n ts m tys e. apply boolfix_irrelevant, recognize_boolfix. Qed.
Print Assumptions C13_bool_union_fix.

(* The order in which the members of a Union are written is irrelevant (shared with C03). *)
Theorem C13_union_member_order : forall rec ts ts' m tys e, Permutation ts ts' -> rec_union rec ts m = Ok (tys, e) ->
  exists tys' e', rec_union rec ts' m = Ok (tys', e') /\ (forall t, In t tys <-> In t tys') /\ (forall t, tys = [t] -> tys' = [t]).
Proof. exact rec_union_perm. Qed.

(* non-vacuity: the three sequence annotations are origins of the generated table; a bool is recognised alike *)
Example C13_ex_origins : map is_seq_origin [0; 1; 2]%nat = [true; true; true] /\ map is_map_origin [3; 4; 5]%nat = [true; true; true].
Proof. vm_compute. split; reflexivity. Qed.
Example C13_ex_boolfix :
  option_map fst (match recognize [] [] 5 (Scalar tag_bool (u "true") nomark) (TUnion [TInt; TBool]) with Ok r => Some r | _ => None end)
    = Some [TBool] /\
  option_map fst (match recognize [] [] 5 (Scalar tag_bool (u "true") nomark) (TUnion [TInt; TBool; TBoolFix]) with Ok r => Some r | _ => None end)
    = Some [TBool].
Proof. vm_compute. split; reflexivity. Qed.
