(* Shared basics: unicode strings as lists of code points, literals, equality. *)
From Coq Require Import NArith List Bool String Ascii Lia.
Import ListNotations.
Open Scope N_scope.

Definition ustring := list N.

Definition u (s : string) : ustring :=
  map (fun a => N.of_nat (nat_of_ascii a)) (list_ascii_of_string s).

Fixpoint ueqb (a b : ustring) : bool :=
  match a, b with
  | [], [] => true
  | x :: a', y :: b' => N.eqb x y && ueqb a' b'
  | _, _ => false
  end.

Lemma ueqb_spec a : forall b, reflect (a = b) (ueqb a b).
Proof.
  induction a as [|x a IH]; intros [|y b]; simpl; try (constructor; congruence).
  destruct (N.eqb_spec x y) as [E|E]; simpl.
  - destruct (IH b) as [E2|E2]; constructor; congruence.
  - constructor; congruence.
Qed.

Lemma ueqb_eq a b : ueqb a b = true <-> a = b.
Proof. destruct (ueqb_spec a b); split; congruence. Qed.
Lemma ueqb_refl a : ueqb a a = true.
Proof. apply ueqb_eq; reflexivity. Qed.
Lemma ueqb_neq a b : ueqb a b = false <-> a <> b.
Proof. destruct (ueqb_spec a b); split; congruence. Qed.

Fixpoint uprefix (p s : ustring) : bool :=
  match p, s with
  | [], _ => true
  | x :: p', y :: s' => N.eqb x y && uprefix p' s'
  | _ :: _, [] => false
  end.

Definition umem (x : ustring) (l : list ustring) : bool := existsb (ueqb x) l.
Lemma umem_In x l : umem x l = true <-> In x l.
Proof.
  unfold umem. rewrite existsb_exists. split.
  - intros [y [Hy E]]. apply ueqb_eq in E. subst. exact Hy.
  - intros H. exists x. split; [exact H | apply ueqb_refl].
Qed.

(* association lists keyed by ustring; first match wins *)
Fixpoint uassoc {A} (k : ustring) (l : list (ustring * A)) : option A :=
  match l with
  | [] => None
  | (k', v) :: l' => if ueqb k k' then Some v else uassoc k l'
  end.

(* ---- YAML tag constants (shared by the resolver model and the node model) ---- *)
Definition tag_str : ustring := u "tag:yaml.org,2002:str"%string.
Definition tag_int : ustring := u "tag:yaml.org,2002:int"%string.
Definition tag_float : ustring := u "tag:yaml.org,2002:float"%string.
Definition tag_bool : ustring := u "tag:yaml.org,2002:bool"%string.
Definition tag_null : ustring := u "tag:yaml.org,2002:null"%string.
Definition tag_timestamp : ustring := u "tag:yaml.org,2002:timestamp"%string.
Definition tag_seq : ustring := u "tag:yaml.org,2002:seq"%string.
Definition tag_map : ustring := u "tag:yaml.org,2002:map"%string.
Definition tag_merge : ustring := u "tag:yaml.org,2002:merge"%string.
Definition tag_value : ustring := u "tag:yaml.org,2002:value"%string.
Definition tag_yaml : ustring := u "tag:yaml.org,2002:yaml"%string.
Definition tag_binary : ustring := u "tag:yaml.org,2002:binary"%string.
