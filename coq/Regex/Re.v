(* Regular expressions over code points (N), with intersection and complement,
   Brzozowski derivatives with ACI-normalising smart constructors, a matcher,
   and an (untrusted) bisimulation explorer plus a (verified, see ReSound.v)
   certificate checker.  Executable definitions only; proofs live elsewhere. *)
From Coq Require Import NArith List Bool.
Import ListNotations.
Open Scope N_scope.

Inductive re :=
| Emp | Eps
| Cls (rs : list (N*N))          (* union of closed ranges *)
| Cat (a b : re) | Alt (a b : re) | And (a b : re) | Not (a : re) | Star (a : re).

Fixpoint cmp_ranges (a b : list (N*N)) : comparison :=
  match a, b with
  | [], [] => Eq | [], _ => Lt | _, [] => Gt
  | (l1,h1)::a', (l2,h2)::b' =>
    match N.compare l1 l2 with
    | Eq => match N.compare h1 h2 with Eq => cmp_ranges a' b' | c => c end
    | c => c end
  end.

Definition tagn (r : re) : N :=
  match r with Emp => 0 | Eps => 1 | Cls _ => 2 | Cat _ _ => 3 | Alt _ _ => 4
             | And _ _ => 5 | Not _ => 6 | Star _ => 7 end.

Fixpoint cmp (a b : re) : comparison :=
  match a, b with
  | Emp, Emp => Eq | Eps, Eps => Eq
  | Cls x, Cls y => cmp_ranges x y
  | Cat a1 a2, Cat b1 b2 => match cmp a1 b1 with Eq => cmp a2 b2 | c => c end
  | Alt a1 a2, Alt b1 b2 => match cmp a1 b1 with Eq => cmp a2 b2 | c => c end
  | And a1 a2, And b1 b2 => match cmp a1 b1 with Eq => cmp a2 b2 | c => c end
  | Not a1, Not b1 => cmp a1 b1
  | Star a1, Star b1 => cmp a1 b1
  | _, _ => N.compare (tagn a) (tagn b)
  end.
Definition reqb a b := match cmp a b with Eq => true | _ => false end.

Fixpoint nullable (r : re) : bool :=
  match r with
  | Emp => false | Eps => true | Cls _ => false
  | Cat a b => nullable a && nullable b
  | Alt a b => nullable a || nullable b
  | And a b => nullable a && nullable b
  | Not a => negb (nullable a)
  | Star _ => true
  end.

Definition in_ranges (c : N) (rs : list (N*N)) : bool :=
  existsb (fun '(l,h) => (l <=? c) && (c <=? h)) rs.

Definition top := Not Emp.

Definition mkCat a b :=
  match a, b with
  | Emp, _ => Emp | _, Emp => Emp | Eps, _ => b | _, Eps => a
  | _, _ => Cat a b end.

(* b is a sorted right-nested Alt chain; insert a (dropping duplicates) *)
Fixpoint insAlt (a : re) (b : re) : re :=
  match b with
  | Alt b1 b2 =>
      match cmp a b1 with
      | Eq => b
      | Lt => Alt a b
      | Gt => Alt b1 (insAlt a b2)
      end
  | _ => match cmp a b with Eq => b | Lt => Alt a b | Gt => Alt b a end
  end.
Fixpoint mkAlt (a b : re) {struct a} : re :=
  match a with
  | Emp => b
  | Alt a1 a2 => mkAlt a1 (mkAlt a2 b)
  | _ => match b with
         | Emp => a
         | _ => if reqb a top then top else if reqb b top then top else insAlt a b
         end
  end.
Fixpoint insAnd (a : re) (b : re) : re :=
  match b with
  | And b1 b2 =>
      match cmp a b1 with
      | Eq => b
      | Lt => And a b
      | Gt => And b1 (insAnd a b2)
      end
  | _ => match cmp a b with Eq => b | Lt => And a b | Gt => And b a end
  end.
Fixpoint mkAnd (a b : re) {struct a} : re :=
  match a with
  | Emp => Emp
  | And a1 a2 => mkAnd a1 (mkAnd a2 b)
  | _ => match b with
         | Emp => Emp
         | _ => if reqb a top then b else if reqb b top then a else insAnd a b
         end
  end.
Definition mkNot a := Not a.
Definition mkStar a := match a with Star _ => a | Eps => Eps | Emp => Eps | _ => Star a end.

Fixpoint deriv (c : N) (r : re) : re :=
  match r with
  | Emp => Emp | Eps => Emp
  | Cls rs => if in_ranges c rs then Eps else Emp
  | Cat a b => if nullable a then mkAlt (mkCat (deriv c a) b) (deriv c b)
               else mkCat (deriv c a) b
  | Alt a b => mkAlt (deriv c a) (deriv c b)
  | And a b => mkAnd (deriv c a) (deriv c b)
  | Not a => mkNot (deriv c a)
  | Star a => mkCat (deriv c a) (mkStar a)
  end.

Definition derivs (r : re) (s : list N) : re := fold_left (fun r c => deriv c r) s r.
Definition matches (r : re) (s : list N) : bool := nullable (derivs r s).

(* class boundaries: the derivative w.r.t. c depends only on the side of c
   relative to each boundary *)
Fixpoint bounds (r : re) : list N :=
  match r with
  | Emp | Eps => []
  | Cls rs => flat_map (fun '(l,h) => [l; h+1]) rs
  | Cat a b | Alt a b | And a b => bounds a ++ bounds b
  | Not a | Star a => bounds a
  end.
Fixpoint insN (x : N) (l : list N) : list N :=
  match l with
  | [] => [x]
  | y::l' => match N.compare x y with Eq => l | Lt => x::l | Gt => y :: insN x l' end
  end.
(* sorted, duplicate-free, always contains 0 *)
Definition reps_of (B : list N) : list N := fold_right insN [0] B.
Definition reps (r1 r2 : re) : list N := reps_of (bounds r1 ++ bounds r2).

Definition pair_eqb (p q : re*re) := reqb (fst p) (fst q) && reqb (snd p) (snd q).
Definition mem (p : re*re) (l : list (re*re)) := existsb (pair_eqb p) l.

(* Untrusted search.  inl (Some R): closed set of derivative pairs found;
   inl None: out of fuel; inr w: w is a shortest string on which the two
   expressions disagree. *)
Fixpoint explore (fuel : nat) (rs : list N) (todo : list (re*re*list N))
         (vis : list (re*re)) : option (list (re*re)) + list N :=
  match fuel with
  | O => inl None
  | S f =>
    match todo with
    | [] => inl (Some vis)
    | (a,b,path)::todo' =>
      if mem (a,b) vis then explore f rs todo' vis
      else if negb (eqb (nullable a) (nullable b)) then inr (rev path)
      else explore f rs
             (todo' ++ map (fun c => (deriv c a, deriv c b, c::path)) rs)
             ((a,b)::vis)
    end
  end.

Definition all_in (l B : list N) : bool := forallb (fun x => existsb (N.eqb x) B) l.

(* The certificate checker: R is closed under derivatives by every
   representative of the boundary list B, all its pairs agree on nullable,
   and all boundaries occurring in R are in B. *)
Definition is_bisim (B : list N) (R : list (re*re)) : bool :=
  forallb (fun '(a,b) =>
             eqb (nullable a) (nullable b)
             && all_in (bounds a ++ bounds b) B
             && forallb (fun c => mem (deriv c a, deriv c b) R) (reps_of B)) R.

(* One-call decision wrapper used by the property files:
   equiv_check fuel a b = true  ->  a and b match the same strings
   (ReSound.equiv_check_sound). *)
Definition equiv_cert (fuel : nat) (a b : re) : option (list (re*re)) + list N :=
  explore fuel (reps a b) [(a,b,[])] [].
Definition all_bounds (R : list (re*re)) : list N :=
  flat_map (fun '(a,b) => bounds a ++ bounds b) R.
Definition equiv_check (fuel : nat) (a b : re) : bool :=
  match equiv_cert fuel a b with
  | inl (Some R) => let B := reps_of (all_bounds R) in is_bisim B R && mem (a,b) R
  | _ => false
  end.
Definition counterexample (fuel : nat) (a b : re) : option (list N) :=
  match equiv_cert fuel a b with inr w => Some w | _ => None end.

(* helpers to build expressions *)
Definition chr (c : N) := Cls [(c,c)].
Definition rng (l h : N) := Cls [(l,h)].
Fixpoint lit (s : list N) : re := match s with [] => Eps | c::s' => mkCat (chr c) (lit s') end.
Definition opt r := mkAlt Eps r.
Definition plus r := mkCat r (mkStar r).
Definition EOS : N := 1114112.                       (* 0x110000, the end-of-string symbol *)
Definition anyc := Cls [(0, EOS)].                   (* any symbol including EOS *)
Definition ucs := Cls [(0, 1114111)].                (* any code point *)
Definition incl_re (a b : re) : re := mkAnd a (mkNot b).   (* empty iff L(a) ⊆ L(b) *)
