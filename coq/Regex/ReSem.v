(* Denotational meaning of the expressions, independent of the engine, and the
   proof that the derivative matcher (with its normalising smart constructors)
   decides it:  matches r s = true <-> lang r s. *)
From Coq Require Import NArith List Bool Lia.
Import ListNotations.
From Y Require Import Re ReSound.
Open Scope N_scope.

Inductive star (L : list N -> Prop) : list N -> Prop :=
| star_nil : star L []
| star_app s1 s2 : L s1 -> star L s2 -> star L (s1 ++ s2).

Fixpoint lang (r : re) (s : list N) : Prop :=
  match r with
  | Emp => False
  | Eps => s = []
  | Cls rs => exists c, s = [c] /\ in_ranges c rs = true
  | Cat a b => exists s1 s2, s = s1 ++ s2 /\ lang a s1 /\ lang b s2
  | Alt a b => lang a s \/ lang b s
  | And a b => lang a s /\ lang b s
  | Not a => ~ lang a s
  | Star a => star (lang a) s
  end.

Lemma lang_top s : lang top s.
Proof. simpl. tauto. Qed.

Lemma lang_mkCat a b s : lang (mkCat a b) s <-> lang (Cat a b) s.
Proof.
  unfold mkCat.
  assert (HE : forall x, lang (Cat Emp x) s <-> False).
  { intros x; simpl; split; [intros (s1&s2&_&H&_); exact H | tauto]. }
  assert (HE' : forall x, lang (Cat x Emp) s <-> False).
  { intros x; simpl; split; [intros (s1&s2&_&_&H); exact H | tauto]. }
  assert (H1 : forall x, lang (Cat Eps x) s <-> lang x s).
  { intros x; simpl; split.
    - intros (s1&s2&E&H1&H2). subst. exact H2.
    - intros H. exists [], s. auto. }
  assert (H1' : forall x, lang (Cat x Eps) s <-> lang x s).
  { intros x; simpl; split.
    - intros (s1&s2&E&H1'&H2). subst. rewrite app_nil_r. exact H1'.
    - intros H. exists s, []. rewrite app_nil_r. auto. }
  destruct a, b;
    first [ rewrite HE; simpl; tauto | rewrite HE'; simpl; tauto
          | rewrite H1; tauto | rewrite H1'; tauto | tauto ].
Qed.

Lemma lang_insAlt a b s : lang (insAlt a b) s <-> lang a s \/ lang b s.
Proof.
  induction b; simpl;
    try (match goal with |- context [cmp a ?x] =>
           destruct (cmp a x) eqn:E; [apply cmp_eq in E; subst; simpl; tauto | simpl; tauto | simpl; tauto] end).
Qed.

Lemma lang_mkAlt a : forall b s, lang (mkAlt a b) s <-> lang a s \/ lang b s.
Proof.
  assert (G : forall a b s, lang (match b with
         | Emp => a
         | _ => if reqb a top then top else if reqb b top then top else insAlt a b
         end) s <-> lang a s \/ lang b s).
  { intros a0 b s.
    assert (K : lang (if reqb a0 top then top else if reqb b top then top else insAlt a0 b) s
                <-> lang a0 s \/ lang b s).
    { destruct (reqb a0 top) eqn:Ea.
      - apply reqb_eq in Ea. subst. pose proof (lang_top s). tauto.
      - destruct (reqb b top) eqn:Eb.
        + apply reqb_eq in Eb. subst. pose proof (lang_top s). tauto.
        + apply lang_insAlt. }
    destruct b; try exact K. simpl. tauto. }
  induction a as [| |rs|a1 IHa1 a2 IHa2|a1 IHa1 a2 IHa2|a1 IHa1 a2 IHa2|a1 IHa1|a1 IHa1];
    intros b s; cbn [mkAlt].
  - simpl. tauto.
  - exact (G Eps b s).
  - exact (G (Cls rs) b s).
  - exact (G (Cat a1 a2) b s).
  - rewrite IHa1, IHa2. simpl. tauto.
  - exact (G (And a1 a2) b s).
  - exact (G (Not a1) b s).
  - exact (G (Star a1) b s).
Qed.

Lemma lang_insAnd a b s : lang (insAnd a b) s <-> lang a s /\ lang b s.
Proof.
  induction b; simpl;
    try (match goal with |- context [cmp a ?x] =>
           destruct (cmp a x) eqn:E; [apply cmp_eq in E; subst; simpl; tauto | simpl; tauto | simpl; tauto] end).
Qed.

Lemma lang_mkAnd a : forall b s, lang (mkAnd a b) s <-> lang a s /\ lang b s.
Proof.
  assert (G : forall a b s, lang (match b with
         | Emp => Emp
         | _ => if reqb a top then b else if reqb b top then a else insAnd a b
         end) s <-> lang a s /\ lang b s).
  { intros a0 b s.
    assert (K : lang (if reqb a0 top then b else if reqb b top then a0 else insAnd a0 b) s
                <-> lang a0 s /\ lang b s).
    { destruct (reqb a0 top) eqn:Ea.
      - apply reqb_eq in Ea. subst. pose proof (lang_top s). tauto.
      - destruct (reqb b top) eqn:Eb.
        + apply reqb_eq in Eb. subst. pose proof (lang_top s). tauto.
        + apply lang_insAnd. }
    destruct b; try exact K. simpl. tauto. }
  induction a as [| |rs|a1 IHa1 a2 IHa2|a1 IHa1 a2 IHa2|a1 IHa1 a2 IHa2|a1 IHa1|a1 IHa1];
    intros b s; cbn [mkAnd].
  - simpl. tauto.
  - exact (G Eps b s).
  - exact (G (Cls rs) b s).
  - exact (G (Cat a1 a2) b s).
  - exact (G (Alt a1 a2) b s).
  - rewrite IHa1, IHa2. simpl. tauto.
  - exact (G (Not a1) b s).
  - exact (G (Star a1) b s).
Qed.

Lemma star_star L s : star (star L) s -> star L s.
Proof.
  induction 1 as [|s1 s2 H1 _ IH]; [constructor|].
  induction H1 as [|t1 t2 Ht1 _ IH1]; simpl; [exact IH|].
  rewrite <- app_assoc. constructor; auto.
Qed.

Lemma star_ext (L1 L2 : list N -> Prop) : (forall s, L1 s -> L2 s) -> forall s, star L1 s -> star L2 s.
Proof. intros H s. induction 1; constructor; auto. Qed.

Lemma lang_mkStar a s : lang (mkStar a) s <-> star (lang a) s.
Proof.
  destruct a; simpl; try tauto.
  - split.
    + intros ->. constructor.
    + induction 1 as [|s1 s2 H1 _ IH]; [reflexivity | destruct H1].
  - split.
    + intros ->. constructor.
    + induction 1 as [|s1 s2 H1 _ IH]; [reflexivity | simpl in H1; rewrite H1; exact IH].
  - split.
    + intros H. rewrite <- (app_nil_r s). constructor; [exact H | constructor].
    + apply star_star.
Qed.

Lemma nullable_spec r : nullable r = true <-> lang r [].
Proof.
  induction r; simpl.
  - split; [discriminate | tauto].
  - tauto.
  - split; [discriminate | intros (c&E&_); discriminate].
  - rewrite andb_true_iff, IHr1, IHr2. split.
    + intros [H1 H2]. exists [], []. auto.
    + intros (s1&s2&E&H1&H2). symmetry in E. apply app_eq_nil in E. destruct E; subst. auto.
  - rewrite orb_true_iff, IHr1, IHr2. tauto.
  - rewrite andb_true_iff, IHr1, IHr2. tauto.
  - rewrite negb_true_iff. rewrite <- IHr. destruct (nullable r); split; congruence.
  - split; [intros _; constructor | reflexivity].
Qed.

Lemma star_cons_inv (L : list N -> Prop) c s :
  star L (c :: s) -> exists s1 s2, s = s1 ++ s2 /\ L (c :: s1) /\ star L s2.
Proof.
  intros H. remember (c :: s) as t eqn:Et. revert c s Et.
  induction H as [|s1 s2 H1 H2 IH]; intros c s Et; [discriminate|].
  destruct s1 as [|c1 s1].
  - simpl in Et. apply IH; exact Et.
  - simpl in Et. injection Et as -> <-. exists s1, s2. auto.
Qed.

Lemma deriv_spec r : forall c s, lang (deriv c r) s <-> lang r (c :: s).
Proof.
  induction r; intros c s; simpl deriv.
  - simpl. tauto.
  - simpl. split; [tauto | discriminate].
  - destruct (in_ranges c rs) eqn:E; simpl.
    + split.
      * intros ->. exists c. auto.
      * intros (c'&Ec&_). injection Ec as _ ->. reflexivity.
    + split; [tauto|]. intros (c'&Ec&H). injection Ec as -> _. congruence.
  - assert (K : lang (mkCat (deriv c r1) r2) s <->
                exists s1 s2, s = s1 ++ s2 /\ lang r1 (c :: s1) /\ lang r2 s2).
    { rewrite lang_mkCat. simpl. split.
      - intros (s1&s2&E&H1&H2). exists s1, s2. rewrite <- IHr1. auto.
      - intros (s1&s2&E&H1&H2). exists s1, s2. rewrite IHr1. auto. }
    destruct (nullable r1) eqn:En.
    + rewrite lang_mkAlt, K, IHr2. simpl. split.
      * intros [(s1&s2&E&H1&H2)|H].
        -- exists (c :: s1), s2. subst. auto.
        -- exists [], (c :: s). apply nullable_spec in En. auto.
      * intros (s1&s2&E&H1&H2). destruct s1 as [|c1 s1].
        -- simpl in E. subst. right. exact H2.
        -- simpl in E. injection E as <- ->. left. exists s1, s2. auto.
    + rewrite K. simpl. split.
      * intros (s1&s2&E&H1&H2). exists (c :: s1), s2. subst. auto.
      * intros (s1&s2&E&H1&H2). destruct s1 as [|c1 s1].
        -- apply nullable_spec in H1. congruence.
        -- simpl in E. injection E as <- ->. exists s1, s2. auto.
  - rewrite lang_mkAlt, IHr1, IHr2. simpl. tauto.
  - rewrite lang_mkAnd, IHr1, IHr2. simpl. tauto.
  - unfold mkNot. simpl. rewrite IHr. tauto.
  - rewrite lang_mkCat. simpl. split.
    + intros (s1&s2&E&H1&H2). apply IHr in H1. apply lang_mkStar in H2. subst.
      change (c :: s1 ++ s2) with ((c :: s1) ++ s2). constructor; auto.
    + intros H. apply star_cons_inv in H. destruct H as (s1&s2&E&H1&H2).
      exists s1, s2. rewrite IHr, lang_mkStar. auto.
Qed.

Theorem matches_spec s : forall r, matches r s = true <-> lang r s.
Proof.
  unfold matches, derivs. induction s as [|c s IH]; intros r; simpl.
  - apply nullable_spec.
  - rewrite IH. apply deriv_spec.
Qed.

Lemma matches_false_spec r s : matches r s = false <-> ~ lang r s.
Proof. rewrite <- matches_spec. destruct (matches r s); split; congruence. Qed.

(* consequences used by the resolver files *)
Lemma matches_mkAnd a b s : matches (mkAnd a b) s = matches a s && matches b s.
Proof.
  apply eq_true_iff_eq. rewrite andb_true_iff, !matches_spec. apply lang_mkAnd.
Qed.
Lemma matches_mkAlt a b s : matches (mkAlt a b) s = matches a s || matches b s.
Proof.
  apply eq_true_iff_eq. rewrite orb_true_iff, !matches_spec. apply lang_mkAlt.
Qed.
Lemma matches_mkNot a s : matches (mkNot a) s = negb (matches a s).
Proof.
  apply eq_true_iff_eq. rewrite negb_true_iff, matches_spec, matches_false_spec. simpl. tauto.
Qed.
Lemma matches_Emp s : matches Emp s = false.
Proof. apply matches_false_spec. simpl. tauto. Qed.
Lemma matches_top s : matches top s = true.
Proof. apply matches_spec. apply lang_top. Qed.

Theorem equiv_check_lang fuel a b : equiv_check fuel a b = true -> forall s, lang a s <-> lang b s.
Proof. intros H s. rewrite <- !matches_spec. rewrite (equiv_check_sound _ _ _ H s). tauto. Qed.
