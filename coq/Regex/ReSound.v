(* Soundness of the certificate checker: if is_bisim accepts R and (a,b) is in
   R then a and b match exactly the same strings -- for strings of every
   length.  The search that produced R is not trusted. *)
From Coq Require Import NArith List Bool Lia.
Import ListNotations.
From Y Require Import Re.
Open Scope N_scope.

Lemma cmp_ranges_eq a : forall b, cmp_ranges a b = Eq -> a = b.
Proof.
  induction a as [|[l1 h1] a IH]; intros [|[l2 h2] b]; simpl; try congruence.
  destruct (N.compare_spec l1 l2) as [E1|E1|E1]; try congruence.
  destruct (N.compare_spec h1 h2) as [E2|E2|E2]; try congruence.
  intros Hc; subst; f_equal; auto.
Qed.

Lemma cmp_eq a : forall b, cmp a b = Eq -> a = b.
Proof.
  induction a; intros b; destruct b; simpl; try (intros H; discriminate H); try reflexivity.
  - intros H; f_equal; apply cmp_ranges_eq; exact H.
  - destruct (cmp a1 b1) eqn:E1; try discriminate; intros H. f_equal; auto.
  - destruct (cmp a1 b1) eqn:E1; try discriminate; intros H. f_equal; auto.
  - destruct (cmp a1 b1) eqn:E1; try discriminate; intros H. f_equal; auto.
  - intros H; f_equal; auto.
  - intros H; f_equal; auto.
Qed.

Lemma reqb_eq a b : reqb a b = true -> a = b.
Proof. unfold reqb. destruct (cmp a b) eqn:E; try discriminate. intros _. apply cmp_eq; exact E. Qed.

Lemma mem_In p R : mem p R = true -> In p R.
Proof.
  unfold mem. rewrite existsb_exists. intros [q [Hq He]].
  unfold pair_eqb in He. apply andb_true_iff in He. destruct He as [H1 H2].
  apply reqb_eq in H1. apply reqb_eq in H2. destruct p, q; simpl in *; subst; exact Hq.
Qed.

(* c and r are on the same side of every boundary in l *)
Definition same_side (c r : N) (l : list N) := forall b, In b l -> (b <=? c) = (b <=? r).

Lemma in_ranges_same c r rs :
  same_side c r (flat_map (fun '(l,h) => [l; h+1]) rs) -> in_ranges c rs = in_ranges r rs.
Proof.
  induction rs as [|[l h] rs IH]; simpl; intros H; [reflexivity|].
  rewrite IH by (intros b Hb; apply H; simpl; auto).
  f_equal.
  assert (H1 := H l (or_introl eq_refl)).
  assert (H2 := H (h+1) (or_intror (or_introl eq_refl))).
  rewrite H1. f_equal.
  destruct (N.leb_spec (h+1) c), (N.leb_spec (h+1) r); try discriminate;
  destruct (N.leb_spec c h), (N.leb_spec r h); try reflexivity; lia.
Qed.

Lemma same_side_app_l c r l1 l2 : same_side c r (l1 ++ l2) -> same_side c r l1.
Proof. intros H b Hb; apply H, in_or_app; auto. Qed.
Lemma same_side_app_r c r l1 l2 : same_side c r (l1 ++ l2) -> same_side c r l2.
Proof. intros H b Hb; apply H, in_or_app; auto. Qed.

Lemma deriv_same c r x : same_side c r (bounds x) -> deriv c x = deriv r x.
Proof.
  induction x; simpl; intros H; try reflexivity.
  - rewrite (in_ranges_same c r rs H); reflexivity.
  - rewrite IHx1, IHx2 by eauto using same_side_app_l, same_side_app_r; reflexivity.
  - rewrite IHx1, IHx2 by eauto using same_side_app_l, same_side_app_r; reflexivity.
  - rewrite IHx1, IHx2 by eauto using same_side_app_l, same_side_app_r; reflexivity.
  - rewrite IHx by assumption; reflexivity.
  - rewrite IHx by assumption; reflexivity.
Qed.

(* the representative of c: the greatest boundary <= c, or 0 *)
Definition rep_of (c : N) (B : list N) : N :=
  fold_left (fun acc b => if (b <=? c) && (acc <? b) then b else acc) B 0.

Lemma rep_of_spec_gen c B : forall acc, acc <= c ->
  let r := fold_left (fun acc b => if (b <=? c) && (acc <? b) then b else acc) B acc in
  r <= c /\ acc <= r /\ (r = acc \/ In r B) /\ (forall b, In b B -> b <= c -> b <= r).
Proof.
  induction B as [|x B IH]; intros acc Hacc; simpl.
  - split; [exact Hacc|]. split; [lia|]. split; [left; reflexivity|]. intros b [].
  - destruct (N.leb_spec x c) as [Hx|Hx]; simpl.
    + destruct (N.ltb_spec acc x) as [Hlt|Hge].
      * destruct (IH x Hx) as (H1 & H2 & H3 & H4).
        split; [exact H1|]. split; [lia|]. split.
        -- destruct H3 as [H3|H3]; [right; left; symmetry; exact H3 | right; right; exact H3].
        -- intros b [Hb|Hb] Hbc; [subst; lia | auto].
      * destruct (IH acc Hacc) as (H1 & H2 & H3 & H4).
        split; [exact H1|]. split; [exact H2|]. split.
        -- destruct H3 as [H3|H3]; [left; exact H3 | right; right; exact H3].
        -- intros b [Hb|Hb] Hbc; [subst; lia | auto].
    + destruct (IH acc Hacc) as (H1 & H2 & H3 & H4).
      split; [exact H1|]. split; [exact H2|]. split.
      * destruct H3 as [H3|H3]; [left; exact H3 | right; right; exact H3].
      * intros b [Hb|Hb] Hbc; [subst; lia | auto].
Qed.

Lemma rep_of_same_side c B : same_side c (rep_of c B) B.
Proof.
  destruct (rep_of_spec_gen c B 0 (N.le_0_l c)) as (H1 & _ & _ & H4).
  fold (rep_of c B) in *.
  intros b Hb.
  destruct (N.leb_spec b c) as [Hbc|Hbc]; destruct (N.leb_spec b (rep_of c B)) as [Hbr|Hbr];
    try reflexivity.
  - specialize (H4 b Hb Hbc). lia.
  - lia.
Qed.

Lemma insN_In x y l : In y (insN x l) <-> y = x \/ In y l.
Proof.
  induction l as [|z l IH]; simpl.
  - intuition.
  - destruct (N.compare_spec x z); simpl.
    + subst. intuition.
    + intuition.
    + rewrite IH. intuition.
Qed.

Lemma reps_of_In y B : In y (reps_of B) <-> y = 0 \/ In y B.
Proof.
  unfold reps_of. induction B as [|x B IH]; simpl.
  - intuition.
  - rewrite insN_In, IH. intuition.
Qed.

Lemma rep_of_in_reps c B : In (rep_of c B) (reps_of B).
Proof.
  destruct (rep_of_spec_gen c B 0 (N.le_0_l c)) as (_ & _ & H3 & _).
  fold (rep_of c B) in *. apply reps_of_In. exact H3.
Qed.

Lemma all_in_spec l B : all_in l B = true -> forall x, In x l -> In x B.
Proof.
  unfold all_in. rewrite forallb_forall. intros H x Hx.
  specialize (H x Hx). rewrite existsb_exists in H. destruct H as [y [Hy He]].
  apply N.eqb_eq in He. subst. exact Hy.
Qed.

Lemma same_side_incl c r l B : same_side c r B -> (forall x, In x l -> In x B) -> same_side c r l.
Proof. intros H Hi b Hb. apply H, Hi, Hb. Qed.

Theorem is_bisim_sound B R : is_bisim B R = true ->
  forall s a b, In (a, b) R -> matches a s = matches b s.
Proof.
  intros HB. unfold is_bisim in HB. rewrite forallb_forall in HB.
  induction s as [|c s IH]; intros a b Hab.
  - specialize (HB (a,b) Hab). simpl in HB.
    apply andb_true_iff in HB. destruct HB as [HB _].
    apply andb_true_iff in HB. destruct HB as [HB _].
    unfold matches, derivs. simpl. apply eqb_prop. exact HB.
  - pose proof (HB (a,b) Hab) as H. simpl in H.
    apply andb_true_iff in H. destruct H as [H Hcl].
    apply andb_true_iff in H. destruct H as [_ Hbd].
    pose proof (all_in_spec _ _ Hbd) as Hin.
    rewrite forallb_forall in Hcl.
    specialize (Hcl (rep_of c B) (rep_of_in_reps c B)).
    apply mem_In in Hcl.
    pose proof (rep_of_same_side c B) as Hss.
    assert (Ha : deriv c a = deriv (rep_of c B) a).
    { apply deriv_same. eapply same_side_incl; [exact Hss|]. intros x Hx. apply Hin, in_or_app; auto. }
    assert (Hb : deriv c b = deriv (rep_of c B) b).
    { apply deriv_same. eapply same_side_incl; [exact Hss|]. intros x Hx. apply Hin, in_or_app; auto. }
    unfold matches, derivs in *. simpl. rewrite Ha, Hb. apply IH. exact Hcl.
Qed.

Theorem equiv_check_sound fuel a b : equiv_check fuel a b = true ->
  forall s, matches a s = matches b s.
Proof.
  unfold equiv_check. destruct (equiv_cert fuel a b) as [[R|]|w]; try discriminate.
  intros H s. apply andb_true_iff in H. destruct H as [H1 H2].
  apply mem_In in H2. eapply is_bisim_sound; eauto.
Qed.
