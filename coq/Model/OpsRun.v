(* Operation language over the Node helper model: used (1) to execute generated
   operation sequences against the implementation (C14, C15), (2) as the
   instruction set of the hook DSL (savorize / sweeten programs). *)
From Coq Require Import NArith ZArith List Bool String.
Import ListNotations.
From Y Require Import Prelude Node Tables NodeOps.
Open Scope N_scope.

Inductive nop :=
| OpHas (a : ustring) | OpGet (a : ustring) | OpSet (a : ustring) (x : pyarg)
| OpRemove (a : ustring) | OpRename (a b : ustring) | OpHasType (a : ustring) (t : styp)
| OpIsScalar (t : styp) | OpIsMapping | OpIsSequence | OpIsEmpty
| OpGetValue | OpSetValue (v : sval) | OpMakeMapping
| OpU2D | OpD2U
| OpRemoveDefaults (params : list (ustring * option value)) (overrides : list (ustring * value))
| OpSeqToMap (a k : ustring) (va : option ustring) (strict : bool)
| OpMapToSeq (a k : ustring) (va : option ustring)
| OpIndexToMap (a k : ustring) (va : option ustring)
| OpMapToIndex (a k : ustring) (va : option ustring).

Inductive oret := RNone | RBool (b : bool) | RNode (n : node) | RValue (v : value) | RExn (e : exn).

Definition ret_of_node (n : node) (r : result node) : node * oret :=
  match r with Ok n' => (n', RNone) | Err e => (n, RExn e) end.
Definition ret_of_bool (n : node) (r : result bool) : node * oret :=
  match r with Ok b => (n, RBool b) | Err e => (n, RExn e) end.

Definition step (o : oracle) (n : node) (op : nop) : node * oret :=
  match op with
  | OpHas a => ret_of_bool n (has_attribute a n)
  | OpGet a => match get_attribute a n with Ok v => (n, RNode v) | Err e => (n, RExn e) end
  | OpSet a x => ret_of_node n (set_attribute a x n)
  | OpRemove a => ret_of_node n (remove_attribute a n)
  | OpRename a b => ret_of_node n (rename_attribute a b n)
  | OpHasType a t => ret_of_bool n (has_attribute_type a t n)
  | OpIsScalar t => ret_of_bool n (is_scalar n t)
  | OpIsMapping => (n, RBool (is_mapping n))
  | OpIsSequence => (n, RBool (is_sequence n))
  | OpIsEmpty => (n, RBool (is_empty n))
  | OpGetValue => match get_value o n with Ok v => (n, RValue v) | Err e => (n, RExn e) end
  | OpSetValue v => ret_of_node n (set_value v n)
  | OpMakeMapping => (make_mapping n, RNone)
  | OpU2D => ret_of_node n (unders_to_dashes_in_keys n)
  | OpD2U => ret_of_node n (dashes_to_unders_in_keys n)
  | OpRemoveDefaults ps ov => ret_of_node n (remove_defaults o (defaulted_attributes ps ov) n)
  | OpSeqToMap a k va s => ret_of_node n (seq_attribute_to_map a k va s n)
  | OpMapToSeq a k va => ret_of_node n (map_attribute_to_seq a k va n)
  | OpIndexToMap a k va => ret_of_node n (index_attribute_to_map a k va n)
  | OpMapToIndex a k va => ret_of_node n (map_attribute_to_index a k va n)
  end.

Fixpoint run (o : oracle) (n : node) (ops : list nop) : node * list oret :=
  match ops with
  | [] => (n, [])
  | op :: r => let '(n1, x) := step o n op in
               let '(n2, xs) := run o n1 r in (n2, x :: xs)
  end.

Definition oret_eqb (a b : oret) : bool :=
  match a, b with
  | RNone, RNone => true
  | RBool x, RBool y => Bool.eqb x y
  | RNode x, RNode y => node_eqb x y
  | RValue x, RValue y => value_eqb x y
  | RExn (EPy _), RExn (EPy _) => true      (* misuse crashes: only "some Python exception" is compared *)
  | RExn x, RExn y => exn_eqb x y
  | _, _ => false
  end.
Fixpoint orets_eqb (a b : list oret) : bool :=
  match a, b with
  | [], [] => true
  | x :: r, y :: r' => oret_eqb x y && orets_eqb r r'
  | _, _ => false
  end.

(* one correspondence case: oracle table, initial node, operations, and what the implementation did *)
Record opcase := { oc_oracle : oracle; oc_init : node; oc_ops : list nop;
                   oc_impl_final : node; oc_impl_rets : list oret }.
Definition case_ok (c : opcase) : bool :=
  let '(n, rs) := run (oc_oracle c) (oc_init c) (oc_ops c) in
  node_eqb n (oc_impl_final c) && orets_eqb rs (oc_impl_rets c).
Fixpoint mismatches_from (i : N) (l : list opcase) : list N :=
  match l with
  | [] => []
  | c :: r => if case_ok c then mismatches_from (i + 1) r else i :: mismatches_from (i + 1) r
  end.
Definition mismatches (l : list opcase) : list N := mismatches_from 0 l.
