(* Model of yatiml.loader.Loader: savorize chain, __process_node, strip_tags,
   and of the construction stage (PyYAML SafeConstructor dispatch + yatiml's
   Constructor / EnumConstructor / UserStringConstructor / PathConstructor). *)
From Coq Require Import NArith ZArith List Bool String.
Import ListNotations.
From Y Require Import Prelude Node Re Resolve Tables NodeOps Types Recognize.
Open Scope N_scope.

(* ---- util.strip_tags ---- *)
Fixpoint strip_tags (n : node) : node :=
  match n with
  | Scalar t v m => if uprefix core_prefix_colon t then n else Scalar (resolve loader_tbl v) v m
  | Seq _ l m => Seq tag_seq (map strip_tags l) m
  | Map _ l m => Map tag_map (map (fun kv => (strip_tags (fst kv), strip_tags (snd kv))) l) m
  end.

Definition tag_path : ustring := bang (u "Path").

Definition type_to_tag (T : ty) : option ustring :=
  match T with
  | TList _ _ => Some tag_seq
  | TDict _ _ _ => Some tag_map
  | TClass c => Some (bang c)
  | TPath => Some tag_path
  | _ => scalar_tag T
  end.

Section load.
  Variable o : oracle.
  Variable reg : registry.

  (* Loader.__savorize: registered bases first (in __bases__ order), then the class's own hook *)
  Fixpoint savorize_order (fuel : nat) (c : ustring) : list ustring :=
    match fuel with
    | O => []
    | S f =>
        match find_cls reg c with
        | None => []
        | Some k =>
            flat_map (savorize_order f) (registered_bases reg k)
            ++ (match c_savorize k with Some _ => [c] | None => [] end)
        end
    end.
  Definition apply_hook (n : result node) (c : ustring) : result node :=
    x <- n ;;
    match find_cls reg c with
    | Some k => match c_savorize k with Some h => h x | None => Ok x end
    | None => Ok x
    end.
  Definition savorize (fuel : nat) (c : ustring) (n : node) : result node :=
    fold_left apply_hook (savorize_order fuel c) (Ok n).

  (* the per-attribute loop of __process_node *)
  Fixpoint process_attrs (proc : node -> ty -> result node) (params : list param) (n : node) : result node :=
    match params with
    | [] => Ok n
    | p :: rest =>
        has <- has_attribute (p_name p) n ;;
        if has then
          sub <- match get_attribute (p_name p) n with
                 | Err ESeasoning => Err ERecognition          (* key given more than once *)
                 | r => r end ;;
          sub' <- proc sub (p_ty p) ;;
          n' <- set_attribute (p_name p) (PNode sub') n ;;
          process_attrs proc rest n'
        else process_attrs proc rest n
    end.

  Fixpoint process_items (proc : node -> result node) (l : list node) : result (list node) :=
    match l with
    | [] => Ok []
    | x :: r => x' <- proc x ;; r' <- process_items proc r ;; Ok (x' :: r')
    end.
  Fixpoint process_pairs (pk pv : node -> result node) (l : list (node * node)) : result (list (node * node)) :=
    match l with
    | [] => Ok []
    | (k, v) :: r => k' <- pk k ;; v' <- pv v ;; r' <- process_pairs pk pv r ;; Ok ((k', v') :: r')
    end.

  Definition FUELK : nat := 64.     (* bound on the depth of class hierarchies walked by savorize *)

  Fixpoint process (fuel : nat) (n : node) (T : ty) {struct fuel} : result node :=
    match fuel with
    | O => Err EFuel
    | S f =>
        res <- recognize o reg fuel n T ;;
        match fst res with
        | [R] =>
            match R with
            | TList _ t =>
                match n with
                | Seq tg items m =>
                    if ueqb tg tag_seq then items' <- process_items (fun i => process f i t) items ;; Ok (Seq tag_seq items' m)
                    else Err ERecognition
                | _ => Err ERecognition
                end
            | TDict _ kt vt =>
                match n with
                | Map tg ps m =>
                    if ueqb tg tag_map then
                      ps' <- process_pairs (fun x => process f x kt) (fun x => process f x vt) ps ;; Ok (Map tag_map ps' m)
                    else Err ERecognition
                | _ => Err ERecognition
                end
            | TClass c =>
                match find_cls reg c with
                | None => Err ERecognition
                | Some k =>
                    (* an enum is read as a string, also when it is spelt like a boolean *)
                    let n0 := match c_shape k, n with
                              | ShEnum _, Scalar tg v m => if ueqb tg tag_bool then Scalar tag_str v m else n
                              | _, _ => n end in
                    n1 <- match savorize FUELK c n0 with
                          | Err ESeasoning => Err ERecognition
                          | r => r end ;;
                    n2 <- (if is_objectlike k && is_mapping n1 then process_attrs (process f) (params_of k) n1 else Ok n1) ;;
                    Ok (set_tag (bang c) n2)
                end
            | TAny => Ok (strip_tags n)
            | _ => match type_to_tag R with Some tg => Ok (set_tag tg n) | None => Err (EPy PyRuntimeError) end
            end
        | _ => Err ERecognition
        end
    end.

  (* ================================================================ construction *)
  (* PyYAML dict keys: hashable values only; True/1 collide like in Python *)
  Definition hashable (v : value) : bool := match v with VList _ | VDict _ => false | _ => true end.
  Definition key_norm (v : value) : value :=
    match v with VBool true => VInt 1 | VBool false => VInt 0 | _ => v end.
  Definition key_eqb (a b : value) : bool := value_eqb (key_norm a) (key_norm b).
  Fixpoint dict_set (k v : value) (d : list (value * value)) : list (value * value) :=
    match d with
    | [] => [(k, v)]
    | (k0, v0) :: r => if key_eqb k k0 then (k0, v) :: r else (k0, v0) :: dict_set k v r
    end.
  Fixpoint sdict_set (k : ustring) (v : value) (d : list (ustring * value)) : list (ustring * value) :=
    match d with
    | [] => [(k, v)]
    | (k0, v0) :: r => if ueqb k k0 then (k0, v) :: r else (k0, v0) :: sdict_set k v r
    end.

  (* SafeConstructor.flatten_mapping: merge keys.  Top-level loops parametrised by the recursive call. *)
  Fixpoint flatten_each (rec : list (node * node) -> result (list (node * node))) (xs : list node)
    : result (list (list (node * node))) :=
    match xs with
    | [] => Ok []
    | Map _ sub _ :: xr => s <- rec sub ;; r' <- flatten_each rec xr ;; Ok (s :: r')
    | _ :: _ => Err EYaml
    end.
  Fixpoint flatten_go (rec : list (node * node) -> result (list (node * node))) (l merge rest : list (node * node))
    : result (list (node * node)) :=
    match l with
    | [] => Ok (merge ++ rest)
    | (k, v) :: r =>
        if ueqb (ntag k) tag_merge then
          match v with
          | Map _ sub _ => sub' <- rec sub ;; flatten_go rec r (merge ++ sub') rest
          | Seq _ subs _ => subs' <- flatten_each rec subs ;; flatten_go rec r (merge ++ List.concat (rev subs')) rest
          | _ => Err EYaml
          end
        else if ueqb (ntag k) tag_value then flatten_go rec r merge (rest ++ [(set_tag tag_str k, v)])
        else flatten_go rec r merge (rest ++ [(k, v)])
    end.
  Fixpoint flatten (fuel : nat) (ps : list (node * node)) : result (list (node * node)) :=
    match fuel with
    | O => Err EFuel
    | S f => flatten_go (flatten f) ps [] []
    end.

  (* Constructor.__type_matches on constructed values *)
  Definition is_instance (d c : ustring) : bool :=
    match find_cls reg d with Some k => umem c (c_ancestors k) | None => false end.
  Fixpoint type_matches (v : value) (T : ty) {struct T} : bool :=
    match T with
    | TUnion ts => (fix any (l : list ty) : bool := match l with [] => false | t :: r => type_matches v t || any r end) ts
    | TList _ t => match v with VList l => forallb (fun x => type_matches x t) l | _ => false end
    | TDict _ kt vt =>
        match v with
        | VDict l => forallb (fun kv => (* isinstance(key, key_type) *)
                                match kt, fst kv with
                                | TStr, (VStr _ | VUStr _ _) => true     (* UserString keys: see DESIGN (str subclasses only) *)
                                | TClass c, VUStr d _ => is_instance d c
                                | _, _ => false end
                                && type_matches (snd kv) vt) l
        | _ => false end
    | TBoolFix => match v with VBool _ => true | _ => false end
    | TAny => true
    | TStr => match v with VStr _ => true | _ => false end
    | TInt => match v with VInt _ | VBool _ => true | _ => false end      (* bool is a subclass of int *)
    | TFloat => match v with VFloat _ => true | _ => false end
    | TBool => match v with VBool _ => true | _ => false end
    | TNone => match v with VNone => true | _ => false end
    | TDate => match v with VDate _ | VDateTime _ => true | _ => false end
    | TPath => match v with VPath _ => true | _ => false end
    | TClass c => match v with
                  | VObj d _ | VEnum d _ | VUStr d _ => is_instance d c
                  | _ => false end
    | TUnknown _ => false
    end.

  Definition key_text' (k : node) : ustring := match k with Scalar _ v _ => v | _ => [] end.
  Definition self_name : ustring := u "self".
  Definition extra_name : ustring := u "_yatiml_extra".

  (* loops of the constructor, parametrised by the recursive call *)
  Fixpoint construct_items (rec : node -> result value) (l : list node) : result (list value) :=
    match l with
    | [] => Ok []
    | x :: r => x' <- rec x ;; r' <- construct_items rec r ;; Ok (x' :: r')
    end.
  Fixpoint construct_pairs (rec : node -> result value) (l : list (node * node)) (acc : list (value * value))
    : result (list (value * value)) :=
    match l with
    | [] => Ok acc
    | (k, v) :: r =>
        kv <- rec k ;;
        if negb (hashable kv) then Err EYaml
        else vv <- rec v ;; construct_pairs rec r (dict_set kv vv acc)
    end.
  (* construct_mapping(node, deep=True) *)
  Definition construct_map (fuel : nat) (rec : node -> result value) (ps : list (node * node))
    : result (list (value * value)) :=
    ps' <- flatten fuel ps ;; construct_pairs rec ps' [].

  Definition str_keyed (ps : list (node * node)) : bool :=
    forallb (fun kv => match fst kv with Scalar t _ _ => ueqb t tag_str | _ => false end) ps.
  Definition strip_unknown (known : list ustring) (ps : list (node * node)) : list (node * node) :=
    map (fun kv => if umem (key_text' (fst kv)) known then kv else (fst kv, strip_tags (snd kv))) ps.
  (* the constructed mapping, read as keyword arguments: its keys are the str keys of the node *)
  Definition kwargs_of (mapping : list (value * value)) : list (ustring * value) :=
    flat_map (fun kv => match fst kv with VStr s => [(s, snd kv)] | _ => [] end) mapping.
  Definition main_args (params : list param) (kw : list (ustring * value)) : list (ustring * value) :=
    flat_map (fun p => match uassoc (p_name p) kw with Some v => [(p_name p, v)] | None => [] end) params.
  Definition extra_args (known : list ustring) (kw : list (ustring * value)) : list (value * value) :=
    map (fun kv => (VStr (fst kv), snd kv)) (filter (fun kv => negb (umem (fst kv) known)) kw).

  (* yatiml.constructors.Constructor.__call__, given the constructed mapping: the checks that precede the
     call of __init__, yielding the keyword arguments it will be called with *)
  Definition init_args (params : list param) (extra : bool) (mapping : list (value * value))
    : option (list (ustring * value)) :=
    let known := map p_name params in
    let kw := kwargs_of mapping in
    (* __check_no_missing_attributes *)
    if negb (forallb (fun p => match uassoc (p_name p) kw with
                               | None => negb (p_required p)
                               | Some v => type_matches v (p_ty p) end) params)
    then None
    (* __type_check_attributes: no extraneous keys unless _yatiml_extra; 'self' passes here and fails in
       __init__; a document key '_yatiml_extra' fails its OrderedDict annotation *)
    else if negb extra && negb (forallb (fun kv => umem (fst kv) known || ueqb (fst kv) self_name) kw)
    then None
    else if existsb (fun kv => ueqb (fst kv) self_name || ueqb (fst kv) extra_name) kw
    then None
    else
      (* keyword arguments, listed in signature order (keyword passing is order-free) *)
      Some (if extra then main_args params kw ++ [(extra_name, VDict (extra_args known kw))]
            else main_args params kw).
  Definition build_object (k : cls) (params : list param) (extra : bool) (mapping : list (value * value)) : result value :=
    match init_args params extra mapping with
    | None => Err ERecognition
    | Some args => if c_init_ok k args then Ok (VObj (c_name k) args) else Err ERecognition
    end.

  (* pathlib.Path(text) normalises its argument ('' -> '.', 'a//b/' -> 'a/b'); str() of the result is looked up in the
     oracle (entry under the !Path tag, present when it differs from the text) *)
  Definition path_of (v : ustring) : ustring :=
    match olookup o tag_path v with Ok (VStr s) => s | _ => v end.

  Fixpoint construct (fuel : nat) (n : node) {struct fuel} : result value :=
    match fuel with
    | O => Err EFuel
    | S f =>
        let tg := ntag n in
        match class_of_tag reg tg with
        | Some k =>
            match c_shape k with
            | ShEnum members =>
                match n with
                | Scalar _ v _ => if umem v members then Ok (VEnum (c_name k) v) else Err ERecognition
                | _ => Err ERecognition end
            | ShStr =>
                match n with
                | Scalar _ v _ => if c_str_ok k v then Ok (VUStr (c_name k) v) else Err ERecognition
                | _ => Err ERecognition end
            | ShObj params extra =>
                match n with
                | Map _ ps m =>
                    (* __strip_extra_attributes: keys must be str scalars; strip what is not a parameter *)
                    if negb (str_keyed ps) then Err ERecognition
                    else
                      mapping <- construct_map fuel (construct f) (strip_unknown (map p_name params) ps) ;;
                      build_object k params extra mapping
                | _ => Err ERecognition
                end
            end
        | None =>
            if ueqb tg tag_path then
              match n with Scalar _ v _ => Ok (VPath (path_of v)) | _ => Err ERecognition end
            else
              match n with
              | Scalar t v _ =>
                  if ueqb t tag_str then Ok (VStr v)            (* construct_yaml_str *)
                  else if ueqb t tag_null then Ok VNone          (* construct_yaml_null *)
                  else match olookup o t v with                  (* every other scalar: PyYAML, through the oracle *)
                       | Err (EPy _) => if uprefix core_prefix_colon t then Err ERecognition   (* Loader.construct_object *)
                                        else Err (EPy PyOther)
                       | r => r end
              | Seq t items _ =>
                  if ueqb t tag_seq then l <- construct_items (construct f) items ;; Ok (VList l)
                  else Err EYaml
              | Map t ps _ =>
                  if ueqb t tag_map then d <- construct_map fuel (construct f) ps ;; Ok (VDict d) else Err EYaml
              end
        end
    end.

  (* ---- the same construction, also recording every call into user code (constructors of classes and of
          string-like classes), in call order, including calls made before a later failure.  Used by the tie
          only; Proofs/LogProofs.v shows its result component IS construct. ---- *)
  Inductive call := CallInit (c : ustring) (args : list (ustring * value)) | CallStr (c : ustring) (s : ustring).
  Definition logged (A : Type) : Type := (list call * result A)%type.
  Definition lbind {A B} (m : logged A) (f : A -> logged B) : logged B :=
    match snd m with
    | Ok a => let r := f a in (fst m ++ fst r, snd r)
    | Err e => (fst m, Err e)
    end.
  Definition lret {A} (r : result A) : logged A := ([], r).

  Fixpoint constructL_items (rec : node -> logged value) (l : list node) : logged (list value) :=
    match l with
    | [] => lret (Ok [])
    | x :: r => lbind (rec x) (fun x' => lbind (constructL_items rec r) (fun r' => lret (Ok (x' :: r'))))
    end.
  Fixpoint constructL_pairs (rec : node -> logged value) (l : list (node * node)) (acc : list (value * value))
    : logged (list (value * value)) :=
    match l with
    | [] => lret (Ok acc)
    | (k, v) :: r =>
        lbind (rec k) (fun kv =>
          if negb (hashable kv) then lret (Err EYaml)
          else lbind (rec v) (fun vv => constructL_pairs rec r (dict_set kv vv acc)))
    end.
  Definition constructL_map (fuel : nat) (rec : node -> logged value) (ps : list (node * node))
    : logged (list (value * value)) :=
    match flatten fuel ps with
    | Ok ps' => constructL_pairs rec ps' []
    | Err e => lret (Err e)
    end.

  Fixpoint constructL (fuel : nat) (n : node) {struct fuel} : logged value :=
    match fuel with
    | O => lret (Err EFuel)
    | S f =>
        let tg := ntag n in
        match class_of_tag reg tg with
        | Some k =>
            match c_shape k with
            | ShEnum members =>
                match n with
                | Scalar _ v _ => lret (if umem v members then Ok (VEnum (c_name k) v) else Err ERecognition)
                | _ => lret (Err ERecognition) end
            | ShStr =>
                match n with
                | Scalar _ v _ => ([CallStr (c_name k) v],
                                   if c_str_ok k v then Ok (VUStr (c_name k) v) else Err ERecognition)
                | _ => lret (Err ERecognition) end
            | ShObj params extra =>
                match n with
                | Map _ ps m =>
                    if negb (str_keyed ps) then lret (Err ERecognition)
                    else
                      lbind (constructL_map fuel (constructL f) (strip_unknown (map p_name params) ps)) (fun mapping =>
                        match init_args params extra mapping with
                        | None => lret (Err ERecognition)
                        | Some args => ([CallInit (c_name k) args],
                                        if c_init_ok k args then Ok (VObj (c_name k) args) else Err ERecognition)
                        end)
                | _ => lret (Err ERecognition)
                end
            end
        | None =>
            if ueqb tg tag_path then
              lret (match n with Scalar _ v _ => Ok (VPath (path_of v)) | _ => Err ERecognition end)
            else
              match n with
              | Scalar t v _ =>
                  lret (if ueqb t tag_str then Ok (VStr v)
                        else if ueqb t tag_null then Ok VNone
                        else match olookup o t v with
                             | Err (EPy _) => if uprefix core_prefix_colon t then Err ERecognition else Err (EPy PyOther)
                             | r => r end)
              | Seq t items _ =>
                  if ueqb t tag_seq then lbind (constructL_items (constructL f) items) (fun l => lret (Ok (VList l)))
                  else lret (Err EYaml)
              | Map t ps _ =>
                  if ueqb t tag_map then lbind (constructL_map fuel (constructL f) ps) (fun d => lret (Ok (VDict d)))
                  else lret (Err EYaml)
              end
        end
    end.

  Definition FUEL : nat := 200.

  (* calls into user constructors made by a load (none if processing fails: construction never starts) *)
  Definition load_calls (doc : option node) (T : ty) : list call :=
    match process FUEL (match doc with Some n => n | None => Scalar tag_null [] nomark end) T with
    | Ok n' => fst (constructL FUEL n')
    | Err _ => []
    end.

  (* yaml.load with this loader: no document => None (Loader.get_single_node) *)
  Definition load (doc : option node) (T : ty) : result value :=
    match doc with
    | None => n' <- process FUEL (Scalar tag_null [] nomark) T ;; construct FUEL n'
    | Some n => n' <- process FUEL n T ;; construct FUEL n'
    end.
End load.
