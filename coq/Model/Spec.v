(* Specification-side definitions: what "conforms to the declared type" means,
   plain data, the tagging invariant established by __process_node, and the
   well-formedness conditions on registries and scalar oracles.  Free of fuel,
   tag rewriting and second type checks. *)
From Coq Require Import NArith ZArith List Bool String.
Import ListNotations.
From Y Require Import Prelude Node Tables NodeOps Types Recognize Loader.
Open Scope N_scope.

(* ---- plain data: what Any / untyped / _yatiml_extra positions may hold ---- *)
Definition builtin_scalar (v : value) : Prop :=
  match v with
  | VStr _ | VInt _ | VFloat _ | VBool _ | VNone | VDate _ | VDateTime _ | VBytes _ => True
  | _ => False
  end.
Inductive plain : value -> Prop :=
| pl_scalar v : builtin_scalar v -> plain v
| pl_list l : Forall plain l -> plain (VList l)
| pl_dict l : Forall (fun kv => plain (fst kv) /\ plain (snd kv)) l -> plain (VDict l).

(* ---- registered subclassing: only through registered direct bases, as the recogniser descends ---- *)
Inductive rsub (reg : registry) : ustring -> ustring -> Prop :=
| rsub_refl c : registered reg c = true -> rsub reg c c
| rsub_step d m c k : find_cls reg d = Some k -> In m (c_bases k) -> rsub reg m c -> rsub reg d c.

(* ---- conformance of a loaded value to a declared type (C01) ---- *)
Inductive conforms (reg : registry) : value -> ty -> Prop :=
| cf_str s : conforms reg (VStr s) TStr
| cf_int z : conforms reg (VInt z) TInt
| cf_float h : conforms reg (VFloat h) TFloat
| cf_bool b : conforms reg (VBool b) TBool
| cf_boolfix b : conforms reg (VBool b) TBoolFix
| cf_none : conforms reg VNone TNone
| cf_date s : conforms reg (VDate s) TDate
| cf_datetime s : conforms reg (VDateTime s) TDate
| cf_path s : conforms reg (VPath s) TPath
| cf_any v : plain v -> conforms reg v TAny
| cf_list k t l : Forall (fun v => conforms reg v t) l -> conforms reg (VList l) (TList k t)
| cf_dict k kt vt l : Forall (fun kv => conforms reg (fst kv) kt /\ conforms reg (snd kv) vt) l ->
                      conforms reg (VDict l) (TDict k kt vt)
| cf_union ts t v : In t ts -> conforms reg v t -> conforms reg v (TUnion ts)
| cf_enum d c k ms m : rsub reg d c -> find_cls reg d = Some k -> c_abstract k = false ->
                       c_shape k = ShEnum ms -> In m ms -> conforms reg (VEnum d m) (TClass c)
| cf_ustr d c k s : rsub reg d c -> find_cls reg d = Some k -> c_abstract k = false ->
                    c_shape k = ShStr -> conforms reg (VUStr d s) (TClass c)
| cf_obj d c k params extra kw :
    rsub reg d c -> find_cls reg d = Some k -> c_abstract k = false -> c_shape k = ShObj params extra ->
    (* every parameter received a conforming argument, or has a default and received none *)
    (forall p v, In p params -> uassoc (p_name p) kw = Some v -> conforms reg v (p_ty p)) ->
    (forall p, In p params -> uassoc (p_name p) kw = None -> p_required p = false) ->
    (* nothing else, except _yatiml_extra holding an ordered mapping of plain data *)
    (forall a v, In (a, v) kw ->
       (exists p, In p params /\ p_name p = a) \/
       (a = extra_name /\ extra = true /\
        exists l, v = VDict l /\ Forall (fun kv => (exists s, fst kv = VStr s) /\ plain (snd kv)) l)) ->
    conforms reg (VObj d kw) (TClass c).

(* ---- the invariant __process_node establishes ---- *)
Fixpoint stripped (n : node) : Prop :=
  match n with
  | Scalar t _ _ => uprefix core_prefix_colon t = true
  | Seq t l _ => t = tag_seq /\ (fix all (l : list node) : Prop := match l with [] => True | x :: r => stripped x /\ all r end) l
  | Map t l _ => t = tag_map /\ (fix all (l : list (node * node)) : Prop :=
                                   match l with [] => True | kv :: r => (stripped (fst kv) /\ stripped (snd kv)) /\ all r end) l
  end.

Definition dict_key_ty (reg : registry) (kt : ty) : Prop :=
  kt = TStr \/ exists c k, kt = TClass c /\ find_cls reg c = Some k /\ c_shape k = ShStr.

Inductive well_tagged (reg : registry) : node -> ty -> Prop :=
| wt_scalar T t v m : scalar_tag T = Some t -> well_tagged reg (Scalar t v m) T
| wt_path v m : well_tagged reg (Scalar tag_path v m) TPath
| wt_any n : stripped n -> well_tagged reg n TAny
| wt_list k t items m : Forall (fun i => well_tagged reg i t) items -> well_tagged reg (Seq tag_seq items m) (TList k t)
| wt_dict k kt vt ps m :
    Forall (fun kv => well_tagged reg (fst kv) kt /\ well_tagged reg (snd kv) vt) ps ->
    Forall (fun kv => ntag (fst kv) <> tag_merge /\ ntag (fst kv) <> tag_value) ps ->
    well_tagged reg (Map tag_map ps m) (TDict k kt vt)
| wt_union ts t n : In t ts -> well_tagged reg n t -> well_tagged reg n (TUnion ts)
| wt_class c d k n :
    rsub reg d c -> find_cls reg d = Some k -> c_abstract k = false -> ntag n = bang d ->
    (forall tg ps m p, n = Map tg ps m -> In p (params_of k) ->
       (List.length (lookup_all (p_name p) ps) <= 1)%nat /\
       forall sub, lookup_all (p_name p) ps = [sub] -> well_tagged reg sub (p_ty p)) ->
    well_tagged reg n (TClass c).

(* ---- well-formedness of registries and oracles ---- *)
Definition wf_cls (k : cls) : Prop :=
  NoDup (map p_name (params_of k)) /\ ~ In extra_name (map p_name (params_of k)) /\
  ~ In self_name (map p_name (params_of k)).
Definition wf_registry (reg : registry) : Prop :=
  NoDup (map c_name reg) /\ Forall wf_cls reg /\
  Forall (fun k => c_name k <> u "Path") reg.     (* '!Path' belongs to pathlib.Path *)

(* what PyYAML's SafeConstructor returns for core-tagged scalars: built-in scalars of the tag's type *)
Definition oracle_wf (o : oracle) : Prop :=
  forall t v x, olookup o t v = Ok x ->
    builtin_scalar x /\
    (t = tag_bool -> exists b, x = VBool b) /\ (t = tag_int -> exists z, x = VInt z) /\
    (t = tag_float -> exists h, x = VFloat h) /\
    (t = tag_timestamp -> (exists s, x = VDate s) \/ (exists s, x = VDateTime s)).

(* executable form, checked on every case's table *)
Definition scalar_ok (t : ustring) (x : value) : bool :=
  match x with
  | VStr _ | VNone | VBytes _ => negb (umem t [tag_bool; tag_int; tag_float; tag_timestamp])
  | VBool _ => negb (umem t [tag_int; tag_float; tag_timestamp])
  | VInt _ => negb (umem t [tag_bool; tag_float; tag_timestamp])
  | VFloat _ => negb (umem t [tag_bool; tag_int; tag_timestamp])
  | VDate _ | VDateTime _ => negb (umem t [tag_bool; tag_int; tag_float])
  | _ => false
  end.
Definition oracle_wfb (o : oracle) : bool :=
  forallb (fun e => match snd e with Ok x => scalar_ok (fst (fst e)) x | Err _ => true end) o.

(* executable forms of wf_registry (soundness: Proofs/WfDecide.v) *)
Fixpoint nodupb (l : list ustring) : bool :=
  match l with [] => true | x :: r => negb (umem x r) && nodupb r end.
Definition wf_clsb (k : cls) : bool :=
  let names := map p_name (params_of k) in
  nodupb names && negb (umem extra_name names) && negb (umem self_name names).
Definition wf_registryb (reg : registry) : bool :=
  nodupb (map c_name reg) && forallb wf_clsb reg && forallb (fun k => negb (ueqb (c_name k) (u "Path"))) reg.

