(* Model of yatiml.recognizer.Recognizer and of UnknownNode's require_* helpers.
   recognize returns the SET of types a node could be (a duplicate-free list)
   plus an error tree; it never modifies the node. *)
From Coq Require Import NArith ZArith List Bool String.
Import ListNotations.
From Y Require Import Prelude Node Tables NodeOps Types.
Open Scope N_scope.

(* error trees: what format_rec_error keeps are the leaves; we keep, per message, the source positions it
   cites and the key names it quotes *)
Inductive rerr := RE (marks : list mark) (keys : list ustring) (causes : list rerr).
Definition rec_ok : rerr := RE [] [] [].
Definition RecResult := (list ty * rerr)%type.

Definition is_nil {A} (l : list A) : bool := match l with [] => true | _ => false end.

(* ---- built-in scalars, Path ---- *)
Definition rec_scalar (n : node) (T : ty) : RecResult :=
  match n, scalar_tag T with
  | Scalar t _ _, Some t' => if ueqb t t' then ([T], rec_ok) else ([], RE [nmark n] [] [])
  | _, _ => ([], RE [nmark n] [] [])
  end.
Definition rec_path (n : node) : RecResult :=
  match n with
  | Scalar t _ _ => if ueqb t tag_str then ([TPath], rec_ok) else ([], RE [nmark n] [] [])
  | _ => ([], RE [nmark n] [] [])
  end.

(* ---- lists, dicts: parametrised by the recursive call ---- *)
Fixpoint rec_items (rec : node -> result RecResult) (k : nat) (t : ty) (items : list node) : result RecResult :=
  match items with
  | [] => Ok ([TList k t], rec_ok)
  | i :: r =>
      res <- rec i ;;
      match fst res with
      | [] => Ok ([], RE [nmark i] [] [snd res])
      | [_] => rec_items rec k t r
      | tys => Ok (map (TList 0) tys, snd res)
      end
  end.

Fixpoint rec_pairs (reck recv : node -> result RecResult) (k : nat) (kt vt : ty) (ps : list (node * node))
  : result RecResult :=
  match ps with
  | [] => Ok ([TDict k kt vt], rec_ok)
  | (kn, vn) :: r =>
      kres <- reck kn ;;
      match fst kres with
      | [] => Ok ([], snd kres)
      | [_] =>
          vres <- recv vn ;;
          match fst vres with
          | [] => Ok ([], snd vres)
          | [_] => rec_pairs reck recv k kt vt r
          | tys => Ok (map (fun t => TDict 3 kt t) tys, snd vres)
          end
      | tys => Ok (map (fun t => TDict 3 t vt) tys, snd kres)
      end
  end.

(* ---- unions ---- *)
Fixpoint rec_members (rec : ty -> result RecResult) (ts : list ty) (acc : list ty) (causes : list rerr)
  : result (list ty * list rerr) :=
  match ts with
  | [] => Ok (acc, causes)
  | t :: r =>
      res <- rec t ;;
      rec_members rec r (ty_union acc (fst res)) (if is_nil (fst res) then causes ++ [snd res] else causes)
  end.
Definition rec_union (rec : ty -> result RecResult) (ts : list ty) (m : mark) : result RecResult :=
  r <- rec_members rec ts [] [] ;;
  let tys0 := fst r in
  let tys := if ty_mem TBool tys0 && ty_mem TBoolFix tys0 then ty_remove TBoolFix tys0 else tys0 in
  match tys with
  | [] => Ok (tys, RE [m] [] (snd r))
  | [_] => Ok (tys, rec_ok)
  | _ => Ok (tys, RE [m] [] [])          (* several members match: the ambiguity itself is the error (fix 8ba5adb) *)
  end.

(* ---- UnknownNode.require_* : the instruction set of custom recognisers ---- *)
Inductive rop :=
| RqScalar (ts : list styp) | RqMapping | RqSequence
| RqAttr (a : ustring) (t : option ty)
| RqAttrValue (a : ustring) (v : sval) | RqAttrValueNot (a : ustring) (v : sval).

Definition sval_eq_node (o : oracle) (v : sval) (n : node) : result bool :=
  (* node.get_value() == value, for a node that is_scalar(type(value)) *)
  x <- get_value o n ;;
  Ok match x, value_of_sval v with
     | VFloat h, VFloat h' => float_eqb h h'
     | a, b => value_eqb a b
     end.

Fixpoint rq_attr_value (o : oracle) (a : ustring) (v : sval) (ps : list (node * node)) (found : bool) : result bool :=
  match ps with
  | [] => Ok found
  | (kn, vn) :: r =>
      if match kn with Scalar t kv _ => ueqb t tag_str && ueqb kv a | _ => false end then
        isv <- is_scalar vn (TyK (kind_of_sval v)) ;;
        if negb isv then Ok false
        else eq <- sval_eq_node o v vn ;; if eq then rq_attr_value o a v r true else Ok false
      else rq_attr_value o a v r found
  end.
Fixpoint rq_attr_value_not (o : oracle) (a : ustring) (v : sval) (ps : list (node * node)) (found : bool) : result bool :=
  match ps with
  | [] => Ok found
  | (kn, vn) :: r =>
      if match kn with Scalar t kv _ => ueqb t tag_str && ueqb kv a | _ => false end then
        isv <- is_scalar vn (TyK (kind_of_sval v)) ;;
        if negb isv then Ok true                       (* `return`: accepted at once *)
        else eq <- sval_eq_node o v vn ;; if eq then Ok false else rq_attr_value_not o a v r true
      else rq_attr_value_not o a v r found
  end.

(* true: returns normally; false: raises RecognitionError; Err: some other exception *)
Definition require (o : oracle) (recog : node -> ty -> bool) (n : node) (r : rop) : result bool :=
  match r with
  | RqScalar [] => Ok (is_scalar_node n)
  | RqScalar ts =>
      (fix go (l : list styp) : result bool :=
         match l with
         | [] => Ok false
         | t :: l' => b <- is_scalar n t ;; if b then Ok true else go l'
         end) ts
  | RqMapping => Ok (is_mapping n)
  | RqSequence => Ok (is_sequence n)
  | RqAttr a t =>
      match n with
      | Map _ ps _ =>
          match lookup_all a ps, t with
          | [], _ => Ok false
          | _ :: _, None => Ok true
          | v :: _, Some T => Ok (recog v T)
          end
      | _ => Ok false
      end
  | RqAttrValue a v => match n with Map _ ps _ => rq_attr_value o a v ps false | _ => Ok false end
  | RqAttrValueNot a v => match n with Map _ ps _ => rq_attr_value_not o a v ps false | _ => Ok false end
  end.

Fixpoint run_recognizer (o : oracle) (recog : node -> ty -> bool) (prog : list rop) (n : node) : bool :=
  match prog with
  | [] => true
  | r :: rest => match require o recog n r with
                 | Ok true => run_recognizer o recog rest n
                 | _ => false          (* RecognitionError, or a crash (excluded by the hook protocol) *)
                 end
  end.

(* ---- one class, exactly (Recognizer.__recognize_user_class) ---- *)
Definition first_key_mark (name : ustring) (ps : list (node * node)) (dflt : mark) : mark :=
  match filter (fun kv => key_is name (fst kv)) ps with (k, _) :: _ => nmark k | [] => dflt end.

(* look an attribute up under its exact name, then under its dashed name *)
Definition attr_names (name : ustring) : list ustring := [name; dashed name].

Fixpoint rec_params (rec : node -> ty -> result RecResult) (n : node) (ps : list (node * node))
         (params : list param) (c : ustring) : result RecResult :=
  match params with
  | [] => Ok ([TClass c], rec_ok)
  | p :: rest =>
      (* the continuation is a thunk: under call-by-value evaluation (vm_compute) an argument would be computed even when
         the attribute is present, which doubles the work per parameter *)
      let try_name (name : ustring) (k : unit -> result RecResult) : result RecResult :=
        if has_attr_ps name ps then
          match get_attr_ps name ps with
          | Err _ => Ok ([], RE [nmark n] [name] [])        (* key given more than once *)
          | Ok sub =>
              res <- rec sub (p_ty p) ;;
              if is_nil (fst res) then Ok ([], RE [first_key_mark name ps (nmark n)] [name] [snd res])
              else rec_params rec n ps rest c
          end
        else k tt in
      try_name (p_name p)
        (fun _ => try_name (dashed (p_name p))
           (fun _ => if p_required p then Ok ([], RE [nmark n] [p_name p] []) else rec_params rec n ps rest c))
  end.

Definition rec_class (o : oracle) (rec : node -> ty -> result RecResult) (k : cls) (n : node) : result RecResult :=
  let c := c_name k in
  match c_recognize k with
  | Some h =>
      let recog := fun n' t => match rec n' t with Ok (tys, _) => negb (is_nil tys) | Err _ => false end in
      if h recog n then Ok ([TClass c], rec_ok) else Ok ([], RE [nmark n] [] [])
  | None =>
      match c_shape k with
      | ShEnum _ =>
          match n with
          | Scalar t _ _ => if ueqb t tag_str || ueqb t tag_bool then Ok ([TClass c], rec_ok)
                            else Ok ([], RE [nmark n] [] [])
          | _ => Ok ([], RE [nmark n] [] [])
          end
      | ShStr =>
          match n with
          | Scalar t _ _ => if ueqb t tag_str then Ok ([TClass c], rec_ok) else Ok ([], RE [nmark n] [] [])
          | _ => Ok ([], RE [nmark n] [] [])
          end
      | ShObj params _ =>
          match n with
          | Map _ ps _ => rec_params rec n ps params c
          | _ => Ok ([], RE [nmark n] (map p_name (filter p_required params)) [])
          end
      end
  end.

(* ---- the hierarchy (Recognizer.__recognize_user_classes) and the dispatcher ---- *)
Definition class_of_tag (reg : registry) (t : ustring) : option cls :=
  match t with
  | c0 :: c => if N.eqb c0 33 then find_cls reg c else None        (* '!' ++ name *)
  | [] => None
  end.

(* descent into the registered direct subclasses, parametrised by the recursive call *)
Fixpoint rec_subs (recsub : ustring -> result RecResult) (l : list cls) (acc : list ty) (causes : list rerr)
  : result (list ty * list rerr) :=
  match l with
  | [] => Ok (acc, causes)
  | d :: r =>
      res <- recsub (c_name d) ;;
      rec_subs recsub r (ty_union acc (fst res)) (if is_nil (fst res) then causes ++ [snd res] else causes)
  end.

Section rec.
  Variable o : oracle.
  Variable reg : registry.

  Fixpoint recognize (fuel : nat) (n : node) (T : ty) {struct fuel} : result RecResult :=
    match fuel with
    | O => Err EFuel
    | S f =>
        match T with
        | TStr | TInt | TFloat | TBool | TBoolFix | TNone | TDate => Ok (rec_scalar n T)
        | TPath => Ok (rec_path n)
        | TUnion ts => rec_union (recognize f n) ts (nmark n)
        | TList k t =>
            if is_seq_origin k then
              match n with
              | Seq _ items _ => rec_items (fun i => recognize f i t) k t items
              | _ => Ok ([], RE [nmark n] [] [])
              end
            else Err ERecognition
        | TDict k kt vt =>
            if is_map_origin k then
              if match kt with
                 | TStr => true
                 | TClass c => match find_cls reg c with
                               | Some kc => match c_shape kc with ShStr => true | _ => false end
                               | None => false end
                 | _ => false end
              then match n with
                   | Map _ ps _ => rec_pairs (fun x => recognize f x kt) (fun x => recognize f x vt) k kt vt ps
                   | _ => Ok ([], RE [nmark n] [] [])
                   end
              else Err (EPy PyRuntimeError)     (* 'YAtiML only supports dicts with strings as keys' *)
            else Err ERecognition
        | TClass c => if registered reg c then rec_classes f n c true else Err ERecognition
        | TAny => Ok ([TAny], rec_ok)
        | TUnknown _ => Err ERecognition
        end
    end
  with rec_classes (fuel : nat) (n : node) (c : ustring) (top : bool) {struct fuel} : result RecResult :=
    match fuel with
    | O => Err EFuel
    | S f =>
        match find_cls reg c with
        | None => Err ERecognition
        | Some k =>
            (* registered direct subclasses first *)
            subs <- rec_subs (fun d => rec_classes f n d false) (direct_subclasses reg c) [] [] ;;
            (* fall back to the class itself when no subclass matched and it is concrete *)
            own <- (if is_nil (fst subs) && negb (c_abstract k) then
                      res <- rec_class o (recognize f) k n ;;
                      Ok (fst res, if is_nil (fst res) then snd subs ++ [snd res] else snd subs)
                    else Ok subs) ;;
            let found := fst own in
            let causes := snd own in
            match found with
            | [] => Ok ([], RE (if top || is_nil causes then [nmark n] else []) [] causes)   (* a leaf always cites the node (fix c13638b) *)
            | [_] =>
                (* a tag that does not name the recognised class is an error *)
                if negb (uprefix core_prefix (ntag n)) then
                  match class_of_tag reg (ntag n) with
                  | Some kt => if ty_mem (TClass (c_name kt)) found then Ok (found, rec_ok)
                               else Ok ([], RE [nmark n] [] [])
                  | None => Ok ([], RE [nmark n] [] [])
                  end
                else Ok (found, rec_ok)
            | _ =>
                (* several candidates: an explicit tag may pick one *)
                match class_of_tag reg (ntag n) with
                | Some kt => if ty_mem (TClass (c_name kt)) found then Ok ([TClass (c_name kt)], rec_ok)
                             else Ok (found, RE [nmark n] [] [])
                | None => Ok (found, RE [nmark n] [] [])
                end
            end
        end
    end.
End rec.
