(* The hook DSL: savorize / sweeten programs are lists of yatiml.Node helper calls
   with guards; recognise programs are lists of UnknownNode.require_* calls
   (Recognize.rop).  Class specifications (first-order data, generated per case)
   are interpreted into the registry records (functions) the model works with. *)
From Coq Require Import NArith ZArith List Bool String.
Import ListNotations.
From Y Require Import Prelude Node Tables NodeOps OpsRun Types Recognize.
Open Scope N_scope.

Inductive sprog :=
| SOp (op : nop)                                   (* call the helper; an exception propagates *)
| SIf (cond : nop) (th el : list nop)              (* if node.<cond>(): ... else: ... *)
| SRaise                                           (* raise yatiml.SeasoningError *)
| SScalarToMap (a : ustring)                       (* if node.is_scalar(str): t = get_value(); make_mapping(); set_attribute(a, t) *)
| SMapToScalar (a : ustring).                      (* if is_mapping() and has_attribute(a): set_value(get_attribute(a).get_value()) -- str only *)

Fixpoint run_strict (o : oracle) (n : node) (ops : list nop) : result node :=
  match ops with
  | [] => Ok n
  | op :: r => match step o n op with
               | (_, RExn e) => Err e
               | (n', _) => run_strict o n' r
               end
  end.

Definition run_sprog (o : oracle) (n : node) (p : sprog) : result node :=
  match p with
  | SOp op => run_strict o n [op]
  | SIf c th el =>
      match step o n c with
      | (_, RExn e) => Err e
      | (n', RBool true) => run_strict o n' th
      | (n', _) => run_strict o n' el
      end
  | SRaise => Err ESeasoning
  | SScalarToMap a =>
      match n with
      | Scalar t v _ => if ueqb t tag_str then Ok (Map tag_map [(Scalar tag_str a genmark, Scalar tag_str v genmark)] genmark)
                        else Ok n
      | _ => Ok n
      end
  | SMapToScalar a =>
      match n with
      | Map t ps m =>
          if has_attr_ps a ps then
            v <- get_attr_ps a ps ;;
            match v with
            | Scalar tv txt _ => if ueqb tv tag_str then set_value (SvStr txt) n else Ok n
            | _ => Ok n
            end
          else Ok n
      | _ => Ok n
      end
  end.

Fixpoint run_hook (o : oracle) (prog : list sprog) (n : node) : result node :=
  match prog with
  | [] => Ok n
  | p :: r => n' <- run_sprog o n p ;; run_hook o r n'
  end.

(* user code that may raise *)
Inductive init_spec := InitOk | InitFail | InitFailIf (a : ustring) (v : value).
Inductive str_spec := StrOk | StrFailOn (bad : list ustring).

Record cls_spec := {
  s_name : ustring; s_bases : list ustring; s_ancestors : list ustring; s_abstract : bool; s_shape : shape;
  s_recognize : option (list rop); s_savorize : option (list sprog); s_sweeten : option (list sprog);
  s_init : init_spec; s_str : str_spec
}.

Definition interp_cls (o : oracle) (s : cls_spec) : cls :=
  {| c_name := s_name s; c_bases := s_bases s; c_ancestors := s_ancestors s; c_abstract := s_abstract s;
     c_shape := s_shape s;
     c_recognize := match s_recognize s with Some p => Some (fun recog n => run_recognizer o recog p n) | None => None end;
     c_savorize := match s_savorize s with Some p => Some (run_hook o p) | None => None end;
     c_sweeten := match s_sweeten s with Some p => Some (run_hook o p) | None => None end;
     c_init_ok := match s_init s with
                  | InitOk => fun _ => true
                  | InitFail => fun _ => false
                  | InitFailIf a v => fun kw => match uassoc a kw with Some x => negb (value_eqb x v) | None => true end
                  end;
     c_str_ok := match s_str s with StrOk => fun _ => true | StrFailOn bad => fun t => negb (umem t bad) end |}.
Definition interp_reg (o : oracle) (l : list cls_spec) : registry := map (interp_cls o) l.
