(* The type language yatiml supports, and class registries. *)
From Coq Require Import NArith ZArith List Bool String.
Import ListNotations.
From Y Require Import Prelude Node Tables NodeOps.
Open Scope N_scope.

Inductive ty :=
| TStr | TInt | TFloat | TBool | TBoolFix | TNone | TDate | TPath | TAny
| TList (k : nat) (t : ty)          (* k = generic origin: 0 list, 1 Sequence, 2 MutableSequence, ... (see Gen/Tables.v) *)
| TDict (k : nat) (kt vt : ty)      (* k: 3 dict, 4 Mapping, 5 MutableMapping *)
| TUnion (ts : list ty)
| TClass (c : ustring)              (* a class, by name *)
| TUnknown (c : ustring).           (* anything else: yatiml raises 'Could not recognize for type' *)

Section ty_ind2.
  Variable P : ty -> Prop.
  Hypotheses (H1 : P TStr) (H2 : P TInt) (H3 : P TFloat) (H4 : P TBool) (H5 : P TBoolFix) (H6 : P TNone)
             (H7 : P TDate) (H8 : P TPath) (H9 : P TAny).
  Hypothesis HL : forall k t, P t -> P (TList k t).
  Hypothesis HD : forall k kt vt, P kt -> P vt -> P (TDict k kt vt).
  Hypothesis HU : forall ts, Forall P ts -> P (TUnion ts).
  Hypothesis HC : forall c, P (TClass c).
  Hypothesis HX : forall c, P (TUnknown c).
  Fixpoint ty_ind2 (t : ty) : P t :=
    match t with
    | TStr => H1 | TInt => H2 | TFloat => H3 | TBool => H4 | TBoolFix => H5 | TNone => H6
    | TDate => H7 | TPath => H8 | TAny => H9
    | TList k t => HL k t (ty_ind2 t)
    | TDict k kt vt => HD k kt vt (ty_ind2 kt) (ty_ind2 vt)
    | TUnion ts => HU ts ((fix go (l : list ty) : Forall P l :=
                             match l with [] => Forall_nil _ | x :: r => Forall_cons _ (ty_ind2 x) (go r) end) ts)
    | TClass c => HC c
    | TUnknown c => HX c
    end.
End ty_ind2.

Fixpoint ty_eqb (a b : ty) : bool :=
  match a, b with
  | TStr, TStr | TInt, TInt | TFloat, TFloat | TBool, TBool | TBoolFix, TBoolFix | TNone, TNone
  | TDate, TDate | TPath, TPath | TAny, TAny => true
  | TList k t, TList k' t' => Nat.eqb k k' && ty_eqb t t'
  | TDict k kt vt, TDict k' kt' vt' => Nat.eqb k k' && ty_eqb kt kt' && ty_eqb vt vt'
  | TUnion ts, TUnion ts' =>
      (fix go (l l' : list ty) : bool :=
         match l, l' with [], [] => true | x :: r, y :: r' => ty_eqb x y && go r r' | _, _ => false end) ts ts'
  | TClass c, TClass c' => ueqb c c'
  | TUnknown c, TUnknown c' => ueqb c c'
  | _, _ => false
  end.

Lemma ty_eqb_eq a : forall b, ty_eqb a b = true <-> a = b.
Proof.
  induction a using ty_ind2; intros b; destruct b; simpl; try (split; [discriminate | discriminate]);
    try (split; reflexivity).
  - rewrite andb_true_iff, Nat.eqb_eq, IHa. split; [intros [-> ->]; reflexivity | intros E; injection E; auto].
  - rewrite !andb_true_iff, Nat.eqb_eq, IHa1, IHa2.
    split; [intros [[-> ->] ->]; reflexivity | intros E; injection E; auto].
  - revert ts0. induction H as [|x l Hx Hl IH]; intros [|y l'].
    + split; reflexivity.
    + split; discriminate.
    + split; discriminate.
    + rewrite andb_true_iff, Hx, IH. split; [intros [-> E]; injection E as ->; reflexivity | intros E; injection E; intros -> ->; auto].
  - rewrite ueqb_eq. split; [intros ->; reflexivity | intros E; injection E; auto].
  - rewrite ueqb_eq. split; [intros ->; reflexivity | intros E; injection E; auto].
Qed.

Definition ty_mem (t : ty) (l : list ty) : bool := existsb (ty_eqb t) l.
Lemma ty_mem_In t l : ty_mem t l = true <-> In t l.
Proof.
  unfold ty_mem. rewrite existsb_exists. split.
  - intros (x & Hx & E). apply ty_eqb_eq in E. subst. exact Hx.
  - intros H. exists t. split; [exact H | apply ty_eqb_eq; reflexivity].
Qed.
(* Python set semantics: insertion without duplicates *)
Definition ty_add (t : ty) (l : list ty) : list ty := if ty_mem t l then l else l ++ [t].
Definition ty_union (a b : list ty) : list ty := fold_left (fun acc t => ty_add t acc) b a.
Definition ty_remove (t : ty) (l : list ty) : list ty := filter (fun x => negb (ty_eqb t x)) l.

(* ---- classes ---- *)
Record param := { p_name : ustring; p_ty : ty; p_required : bool }.
Inductive shape :=
| ShObj (params : list param) (has_extra : bool)     (* ordinary class: parameters of __init__ minus self/_yatiml_extra *)
| ShEnum (members : list ustring)                    (* enum.Enum subclass: member names *)
| ShStr.                                             (* string-like: str / UserString / yatiml.String subclass *)

Record cls := {
  c_name : ustring;
  c_bases : list ustring;        (* __bases__, by name (registered or not) *)
  c_ancestors : list ustring;    (* every class d with issubclass(c, d), c itself included (Python's view) *)
  c_abstract : bool;             (* util.is_abstract *)
  c_shape : shape;
  (* hooks defined in the class's OWN body (cls.__dict__), None otherwise *)
  c_recognize : option ((node -> ty -> bool) -> node -> bool);   (* argument: "recognize(n, t) is non-empty" *)
  c_savorize : option (node -> result node);
  c_sweeten : option (node -> result node);
  (* user code that may raise: __init__ on its keyword arguments, string-like constructor on its text *)
  c_init_ok : list (ustring * value) -> bool;
  c_str_ok : ustring -> bool
}.
Definition registry := list cls.          (* registration order *)

Fixpoint find_cls (reg : registry) (c : ustring) : option cls :=
  match reg with [] => None | k :: r => if ueqb (c_name k) c then Some k else find_cls r c end.
Definition registered (reg : registry) (c : ustring) : bool :=
  match find_cls reg c with Some _ => true | None => false end.
Definition registered_bases (reg : registry) (k : cls) : list ustring :=
  filter (registered reg) (c_bases k).
(* registered classes having c among their direct bases, in registration order *)
Definition direct_subclasses (reg : registry) (c : ustring) : list cls :=
  filter (fun k => umem c (c_bases k)) reg.

Definition params_of (k : cls) : list param :=
  match c_shape k with ShObj ps _ => ps | _ => [] end.
Definition has_extra (k : cls) : bool :=
  match c_shape k with ShObj _ e => e | _ => false end.
Definition is_objectlike (k : cls) : bool :=
  match c_shape k with ShObj _ _ => true | _ => false end.

Definition dashed (s : ustring) : ustring := replace_char 95 45 s.

(* scalar types and their tags, through the GENERATED table *)
Definition kind_of_ty (t : ty) : option skind :=
  match t with
  | TStr => Some KStr | TInt => Some KInt | TFloat => Some KFloat | TBool => Some KBool
  | TBoolFix => Some KBoolFix | TNone => Some KNoneType | TDate => Some KDate | _ => None
  end.
Definition scalar_tag (t : ty) : option ustring :=
  match kind_of_ty t with Some k => tag_of_kind k | None => None end.

Definition is_seq_origin (k : nat) : bool := existsb (Nat.eqb k) generic_sequence_origins.
Definition is_map_origin (k : nat) : bool := existsb (Nat.eqb k) generic_mapping_origins.
