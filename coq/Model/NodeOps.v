(* Model of yatiml.helpers.Node and UnknownNode (the helper API used inside
   user hooks), as pure functions on node trees.  One definition per method;
   "self.yaml_node is replaced / mutated" becomes "returns the new node".
   Misuse that the documentation excludes (mapping helpers on non-mappings)
   yields the Python exception class the code would raise. *)
From Coq Require Import NArith ZArith List Bool String.
Import ListNotations.
From Y Require Import Prelude Node Re Resolve Tables.
Open Scope N_scope.

(* ---- scalar types as passed to is_scalar / has_attribute_type / set_value ---- *)
Inductive styp := TyAnyScalar                 (* the _Any default *)
               | TyK (k : skind)             (* a key of scalar_type_to_tag (GENERATED) *)
               | TyList | TyDict | TyInvalid.

Fixpoint sk_lookup (k : skind) (l : list (skind * ustring)) : option ustring :=
  match l with
  | [] => None
  | (k', t) :: r =>
      if match k, k' with
         | KStr, KStr | KInt, KInt | KFloat, KFloat | KBool, KBool | KBoolFix, KBoolFix
         | KNone, KNone | KNoneType, KNoneType | KDate, KDate => true
         | _, _ => false end
      then Some t else sk_lookup k r
  end.
Definition tag_of_kind (k : skind) : option ustring := sk_lookup k scalar_type_to_tag.

(* Python scalar values passed to set_value / set_attribute / require_attribute_value *)
Inductive sval := SvStr (s : ustring) | SvBool (b : bool) | SvInt (z : Z)
                | SvFloat (str_text : ustring) (hex : ustring)   (* str(v) and v.hex() *)
                | SvNone.
Definition kind_of_sval (v : sval) : skind :=
  match v with SvStr _ => KStr | SvBool _ => KBool | SvInt _ => KInt | SvFloat _ _ => KFloat | SvNone => KNoneType end.

(* decimal text of an integer, as str(int) *)
Fixpoint dec_digits (fuel : nat) (n : N) (acc : ustring) : ustring :=
  match fuel with
  | O => acc
  | S f => let d := 48 + N.modulo n 10 in
           if n <? 10 then d :: acc else dec_digits f (N.div n 10) (d :: acc)
  end.
Definition z_to_dec (z : Z) : ustring :=
  match z with
  | Z0 => [48]
  | Zpos p => dec_digits (S (N.size_nat (Npos p))) (Npos p) []
  | Zneg p => 45 :: dec_digits (S (N.size_nat (Npos p))) (Npos p) []
  end.

Definition sval_text (v : sval) : ustring :=
  match v with
  | SvStr s => s
  | SvBool true => u "true" | SvBool false => u "false"
  | SvInt z => z_to_dec z
  | SvFloat t _ => t
  | SvNone => u "None"            (* str(None): what set_value writes *)
  end.
Definition value_of_sval (v : sval) : value :=
  match v with
  | SvStr s => VStr s | SvBool b => VBool b | SvInt z => VInt z | SvFloat _ h => VFloat h | SvNone => VNone
  end.

(* ---- classification ---- *)
Definition is_scalar_node (n : node) := match n with Scalar _ _ _ => true | _ => false end.
Definition is_mapping (n : node) := match n with Map _ _ _ => true | _ => false end.
Definition is_sequence (n : node) := match n with Seq _ _ _ => true | _ => false end.

Definition is_scalar (n : node) (typ : styp) : result bool :=
  match n with
  | Scalar t _ _ =>
      match typ with
      | TyAnyScalar => Ok true
      | TyK k => match tag_of_kind k with Some t' => Ok (ueqb t t') | None => Err (EPy PyValueError) end
      | _ => Err (EPy PyValueError)
      end
  | _ => Ok false
  end.

(* ---- scalar access ---- *)
Definition true_spellings : list ustring := map u ["TRUE"; "True"; "true"]%string.

Definition get_value (o : oracle) (n : node) : result value :=
  match n with
  | Scalar t v _ =>
      if ueqb t tag_str then Ok (VStr v)
      else if ueqb t tag_int then olookup o tag_int v         (* SafeConstructor.construct_yaml_int *)
      else if ueqb t tag_float then olookup o tag_float v     (* SafeConstructor.construct_yaml_float *)
      else if ueqb t tag_bool then Ok (VBool (umem v true_spellings))
      else if ueqb t tag_null then Ok VNone
      else Err (EPy PyRuntimeError)
  | _ => Err (EPy PyRuntimeError)
  end.

Definition set_value (v : sval) (n : node) : result node :=
  let t := ntag n in
  if uprefix core_prefix_colon t then
    match tag_of_kind (kind_of_sval v) with
    | Some t' => Ok (Scalar t' (sval_text v) (nmark n))
    | None => Err (EPy PyKeyError)
    end
  else Ok (Scalar t (sval_text v) (nmark n)).

Definition make_mapping (n : node) : node := Map tag_map [] genmark.

(* ---- mapping access ---- *)
Definition key_is (a : ustring) (k : node) : bool :=
  match k with Scalar _ v _ => ueqb v a | _ => false end.

(* `for key_node, value_node in self.yaml_node.value` *)
Definition pairs_of (n : node) : result (list (node * node)) :=
  match n with
  | Map _ ps _ => Ok ps
  | Scalar _ [] _ => Ok []
  | Scalar _ _ _ => Err (EPy PyValueError)     (* unpacking a 1-character string *)
  | Seq _ [] _ => Ok []
  | Seq _ _ _ => Err (EPy PyTypeError)         (* unpacking a Node object *)
  end.

Definition has_attr_ps (a : ustring) (ps : list (node * node)) : bool :=
  existsb (fun kv => key_is a (fst kv)) ps.
Definition has_attribute (a : ustring) (n : node) : result bool :=
  ps <- pairs_of n ;; Ok (has_attr_ps a ps).

Definition lookup_all (a : ustring) (ps : list (node * node)) : list node :=
  map snd (filter (fun kv => key_is a (fst kv)) ps).
Definition get_attr_ps (a : ustring) (ps : list (node * node)) : result node :=
  match lookup_all a ps with
  | [v] => Ok v
  | _ => Err ESeasoning
  end.
Definition get_attribute (a : ustring) (n : node) : result node :=
  ps <- pairs_of n ;; get_attr_ps a ps.

Inductive pyarg := PScalar (v : sval) | PNode (n : node).
Definition node_of_arg (x : pyarg) : node :=
  match x with
  | PNode n => n
  | PScalar (SvStr s) => Scalar tag_str s genmark
  | PScalar (SvBool b) => Scalar tag_bool (sval_text (SvBool b)) genmark
  | PScalar (SvInt z) => Scalar tag_int (z_to_dec z) genmark
  | PScalar (SvFloat t h) => Scalar tag_float t genmark
  | PScalar SvNone => Scalar tag_null [] genmark
  end.

Fixpoint replace_first (a : ustring) (v : node) (ps : list (node * node)) : option (list (node * node)) :=
  match ps with
  | [] => None
  | (k, v0) :: r =>
      if key_is a k then Some ((k, v) :: r)
      else match replace_first a v r with Some r' => Some ((k, v0) :: r') | None => None end
  end.
Definition set_attr_ps (a : ustring) (v : node) (ps : list (node * node)) : list (node * node) :=
  match replace_first a v ps with
  | Some ps' => ps'
  | None => ps ++ [(Scalar tag_str a genmark, v)]
  end.
Definition set_attribute (a : ustring) (x : pyarg) (n : node) : result node :=
  match n with
  | Map t ps m => Ok (Map t (set_attr_ps a (node_of_arg x) ps) m)
  | _ => Err (EPy PyOther)
  end.

Fixpoint remove_first (a : ustring) (ps : list (node * node)) : list (node * node) :=
  match ps with
  | [] => []
  | (k, v) :: r => if key_is a k then r else (k, v) :: remove_first a r
  end.
(* the mapping helpers iterate `for key_node, value_node in self.yaml_node.value`: on a node whose value is an empty string or an
   empty list there is nothing to iterate, so they are no-ops; on other non-mappings the unpacking fails *)
Definition remove_attribute (a : ustring) (n : node) : result node :=
  match n with
  | Map t ps m => Ok (Map t (remove_first a ps) m)
  | Scalar _ [] _ | Seq _ [] _ => Ok n
  | _ => Err (EPy PyOther)
  end.

Definition set_scalar_text (v : ustring) (k : node) : node :=
  match k with Scalar t _ m => Scalar t v m | _ => k end.
Fixpoint rename_first (a b : ustring) (ps : list (node * node)) : list (node * node) :=
  match ps with
  | [] => []
  | (k, v) :: r => if key_is a k then (set_scalar_text b k, v) :: r else (k, v) :: rename_first a b r
  end.
Definition rename_attribute (a b : ustring) (n : node) : result node :=
  match n with
  | Map t ps m => Ok (Map t (rename_first a b ps) m)
  | Scalar _ [] _ | Seq _ [] _ => Ok n
  | _ => Err (EPy PyOther)
  end.

Definition has_attribute_type (a : ustring) (typ : styp) (n : node) : result bool :=
  ps <- pairs_of n ;;
  if negb (has_attr_ps a ps) then Ok false
  else v <- get_attr_ps a ps ;;
       match typ with
       | TyK k => match tag_of_kind k with Some t => Ok (ueqb (ntag v) t) | None => Err (EPy PyValueError) end
       | TyList => Ok (is_sequence v)
       | TyDict => Ok (is_mapping v)
       | _ => Err (EPy PyValueError)
       end.

Definition is_empty (n : node) : bool :=
  match n with Scalar _ v _ => match v with [] => true | _ => false end
             | Seq _ l _ => match l with [] => true | _ => false end
             | Map _ l _ => match l with [] => true | _ => false end end.

(* ---- key rewriting ---- *)
Definition replace_char (x y : N) (s : ustring) : ustring := map (fun c => if N.eqb c x then y else c) s.
Definition all_scalar_keys (ps : list (node * node)) : bool := forallb (fun kv => is_scalar_node (fst kv)) ps.
Definition map_keys (f : ustring -> ustring) (ps : list (node * node)) : list (node * node) :=
  map (fun kv => (match fst kv with Scalar t v m => Scalar t (f v) m | k => k end, snd kv)) ps.
Definition rewrite_keys (x y : N) (n : node) : result node :=
  match n with
  | Map t ps m => if all_scalar_keys ps then Ok (Map t (map_keys (replace_char x y) ps) m)
                  else Err (EPy PyAttributeError)      (* list has no .replace *)
  | Scalar _ [] _ | Seq _ [] _ => Ok n
  | _ => Err (EPy PyOther)
  end.
Definition unders_to_dashes_in_keys := rewrite_keys 95 45.
Definition dashes_to_unders_in_keys := rewrite_keys 45 95.

(* ---- remove_attributes_with_default_values ---- *)
(* defaults: parameter name -> default value (already overridden by _yatiml_defaults) *)
Definition false_words : list ustring := map u ["n"; "no"; "false"; "off"]%string.
Definition true_words : list ustring := map u ["y"; "yes"; "true"; "on"]%string.
Definition lower (s : ustring) : ustring := map (fun c => if (65 <=? c) && (c <=? 90) then c + 32 else c) s.

(* Python == on two floats given by float.hex(): equal text, or both zeros; nan equals nothing *)
Definition float_zero (h : ustring) : bool := ueqb h (u "0x0.0p+0") || ueqb h (u "-0x0.0p+0").
Definition float_eqb (h1 h2 : ustring) : bool :=
  if ueqb h1 (u "nan") then false
  else ueqb h1 h2 || (float_zero h1 && float_zero h2).
Definition default_matches (o : oracle) (vn : node) (d : value) : bool :=
  match vn with
  | Scalar t v _ =>
      if ueqb t tag_null then match d with VNone => true | _ => false end
      else if ueqb t tag_int then
        match d, olookup o tag_int v with VInt z, Ok (VInt z') => Z.eqb z z' | _, _ => false end
      else if ueqb t tag_float then
        match d, olookup o tag_float v with VFloat h, Ok (VFloat h') => float_eqb h' h | _, _ => false end
      else if ueqb t tag_bool then
        match d with
        | VBool false => umem (lower v) false_words
        | VBool true => umem (lower v) true_words
        | _ => false end
      else if ueqb t tag_str then match d with VStr s => ueqb v s | _ => false end
      else false
  | Seq _ [] _ => match d with VList [] => true | _ => false end
  | Map _ [] _ => match d with VDict [] => true | _ => false end
  | _ => false
  end.
Definition remove_defaults (o : oracle) (defaults : list (ustring * value)) (n : node) : result node :=
  match n with
  | Map t ps m =>
      if all_scalar_keys ps then
        Ok (Map t (filter (fun kv => match fst kv with
                                     | Scalar _ k _ => match uassoc k defaults with
                                                       | Some d => negb (default_matches o (snd kv) d)
                                                       | None => true end
                                     | _ => true end) ps) m)
      else Err (EPy PyTypeError)
  | _ => Err (EPy PyOther)
  end.

(* introspection.defaulted_attributes: parameters that have a default, with the class's
   _yatiml_defaults overriding the signature's value; entries of _yatiml_defaults naming anything
   else are ignored *)
Definition defaulted_attributes (params : list (ustring * option value)) (overrides : list (ustring * value))
  : list (ustring * value) :=
  flat_map (fun p => match snd p with
                     | Some d => [(fst p, match uassoc (fst p) overrides with Some o => o | None => d end)]
                     | None => [] end) params.

(* ---- the four structural transforms (validate first, then rebuild) ---- *)
Definition replace_attr (a : ustring) (v : node) (n : node) : node :=
  match n with Map t ps m => Map t (set_attr_ps a v ps) m | _ => n end.

Fixpoint keys_unique (seen : list ustring) (ks : list ustring) : bool :=
  match ks with [] => true | k :: r => negb (umem k seen) && keys_unique (k :: seen) r end.

(* outcome of validating the items of seq_attribute_to_map *)
Inductive s2m_check := S2M_ok (keys : list ustring) | S2M_noop | S2M_err.
Fixpoint s2m_validate (k : ustring) (strict : bool) (seen : list ustring) (items : list node) : s2m_check :=
  match items with
  | [] => S2M_ok (rev seen)
  | Map _ ps _ :: r =>
      if negb (has_attr_ps k ps) then S2M_noop
      else match get_attr_ps k ps with
           | Err _ => S2M_err                                (* key attribute given more than once *)
           | Ok (Scalar t v _) =>
               if ueqb t tag_str then
                 if umem v seen then (if strict then S2M_err else S2M_noop)
                 else s2m_validate k strict (v :: seen) r
               else S2M_err                                  (* 'Expected a string here' *)
           | Ok _ => S2M_err
           end
  | _ :: _ => S2M_noop
  end.
Definition s2m_entry (k : ustring) (va : option ustring) (item : node) : node * node :=
  match item with
  | Map t ps m =>
      let key_node := match get_attr_ps k ps with Ok x => x | Err _ => item end in
      let rest := remove_first k ps in
      match va, rest with
      | Some v, [(k1, v1)] => if key_is v k1 then (key_node, v1) else (key_node, Map t rest m)
      | _, _ => (key_node, Map t rest m)
      end
  | _ => (item, item)
  end.
Definition seq_attribute_to_map (a k : ustring) (va : option ustring) (strict : bool) (n : node) : result node :=
  ps <- pairs_of n ;;
  if negb (has_attr_ps a ps) then Ok n
  else attr <- get_attr_ps a ps ;;
       match attr with
       | Seq _ items m =>
           match s2m_validate k strict [] items with
           | S2M_noop => Ok n
           | S2M_err => Err ESeasoning
           | S2M_ok _ => Ok (replace_attr a (Map tag_map (map (s2m_entry k va) items) m) n)
           end
       | _ => Ok n
       end.

Definition m2s_item (k : ustring) (va : option ustring) (kv : node * node) : node :=
  let '(ik, iv) := kv in
  let ktext := match ik with Scalar _ v _ => v | _ => [] end in
  let base := match iv with
              | Map _ _ _ => iv
              | _ => match va with
                     | Some v => Map tag_map [(Scalar tag_str v genmark, iv)] (nmark ik)
                     | None => iv end
              end in
  replace_attr k (Scalar tag_str ktext genmark) base.
Definition map_attribute_to_seq (a k : ustring) (va : option ustring) (n : node) : result node :=
  ps <- pairs_of n ;;
  if negb (has_attr_ps a ps) then Ok n
  else attr <- get_attr_ps a ps ;;
       match attr with
       | Map _ items m =>
           if negb (all_scalar_keys items) then Ok n
           else if match va with None => negb (forallb (fun kv => is_mapping (snd kv)) items) | Some _ => false end
           then Ok n
           else Ok (replace_attr a (Seq tag_seq (map (m2s_item k va) items) m) n)
       | _ => Ok n
       end.

Definition i2m_entry (k : ustring) (va : option ustring) (kv : node * node) : node * node :=
  let '(ik, iv) := kv in
  match iv with
  | Map t ps m =>
      let rest := filter (fun p => negb (key_is k (fst p))) ps in
      match va, rest with
      | Some v, [(k1, v1)] => if key_is v k1 then (ik, v1) else (ik, Map t rest m)
      | _, _ => (ik, Map t rest m)
      end
  | _ => kv
  end.
Definition set_pairs (ps : list (node * node)) (n : node) : node :=
  match n with Map t _ m => Map t ps m | _ => n end.
Definition index_attribute_to_map (a k : ustring) (va : option ustring) (n : node) : result node :=
  ps <- pairs_of n ;;
  if negb (has_attr_ps a ps) then Ok n
  else attr <- get_attr_ps a ps ;;
       match attr with
       | Map _ items _ =>
           if negb (forallb (fun kv => is_mapping (snd kv)) items) then Ok n
           else Ok (replace_attr a (set_pairs (map (i2m_entry k va) items) attr) n)
       | _ => Ok n
       end.

Definition m2i_entry (k : ustring) (va : option ustring) (kv : node * node) : node * node :=
  let '(ik, iv) := kv in
  let base := match iv with
              | Map _ _ _ => iv
              | _ => match va with
                     | Some v => Map tag_map [(Scalar tag_str v (nmark iv), iv)] (nmark iv)
                     | None => iv end
              end in
  match base with
  | Map t ps m => if has_attr_ps k ps then (ik, base)
                  else (ik, Map t (ps ++ [(Scalar tag_str k (nmark ik), ik)]) m)
  | _ => (ik, base)
  end.
Definition map_attribute_to_index (a k : ustring) (va : option ustring) (n : node) : result node :=
  ps <- pairs_of n ;;
  if negb (has_attr_ps a ps) then Ok n
  else attr <- get_attr_ps a ps ;;
       match attr with
       | Map _ items _ =>
           if match va with None => negb (forallb (fun kv => is_mapping (snd kv)) items) | Some _ => false end
           then Ok n
           else Ok (replace_attr a (set_pairs (map (m2i_entry k va) items) attr) n)
       | _ => Ok n
       end.
