(* C17: which positions an error tree cites, and the correspondence cases for cited positions. *)
From Coq Require Import NArith ZArith List Bool String.
Import ListNotations.
From Y Require Import Prelude Node Tables NodeOps Types Recognize Loader Hooks.
Open Scope N_scope.

(* every mark of a node tree *)
Fixpoint all_marks (n : node) : list mark :=
  match n with
  | Scalar _ _ m => [m]
  | Seq _ l m => m :: flat_map all_marks l
  | Map _ l m => m :: flat_map (fun kv => all_marks (fst kv) ++ all_marks (snd kv)) l
  end.

(* every mark an error tree mentions; the marks of its leaves (format_rec_error prints the leaf messages) *)
Fixpoint marks_of (e : rerr) : list mark :=
  match e with RE ms _ cs => ms ++ flat_map marks_of cs end.
Fixpoint leaf_marks (e : rerr) : list mark :=
  match e with
  | RE ms _ [] => ms
  | RE _ _ cs => flat_map leaf_marks cs
  end.
Fixpoint leaf_keys (e : rerr) : list ustring :=
  match e with
  | RE _ ks [] => ks
  | RE _ _ cs => flat_map leaf_keys cs
  end.

(* ec_exact: no class of the model has a custom recogniser.  A custom recogniser's failure message is free text (it may
   itself quote positions of sub-errors), which the error tree does not model: then only inclusion is compared. *)
Record errcase := { ec_oracle : oracle; ec_specs : list cls_spec; ec_type : ty; ec_doc : node; ec_cited : list (nat * nat);
                    ec_exact : bool }.
Definition pos_of (m : mark) : nat * nat := (N.to_nat (m_line m), N.to_nat (m_col m)).
Definition pos_eqb (a b : nat * nat) : bool := Nat.eqb (fst a) (fst b) && Nat.eqb (snd a) (snd b).
Definition pos_mem (p : nat * nat) (l : list (nat * nat)) : bool := existsb (pos_eqb p) l.
Definition same_positions (a b : list (nat * nat)) : bool :=
  forallb (fun p => pos_mem p b) a && forallb (fun p => pos_mem p a) b.
Definition errcase_ok (c : errcase) : bool :=
  match recognize (ec_oracle c) (interp_reg (ec_oracle c) (ec_specs c)) Loader.FUEL (ec_doc c) (ec_type c) with
  | Ok ([_], _) => true           (* recognised: the error came from a later stage (constructor, user code) *)
  | Ok (_, e) => if ec_exact c then same_positions (map pos_of (leaf_marks e)) (ec_cited c)
                 else forallb (fun p => pos_mem p (ec_cited c)) (map pos_of (leaf_marks e))
  | Err _ => true                 (* not a failure of the recogniser's own making: nothing to compare *)
  end.
Fixpoint emism_from (i : N) (l : list errcase) : list N :=
  match l with [] => [] | c :: r => if errcase_ok c then emism_from (i + 1) r else i :: emism_from (i + 1) r end.
Definition err_mismatches (l : list errcase) : list N := emism_from 0 l.
