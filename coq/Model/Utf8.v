(* C12: the byte-level contract between the source kinds.  A str source and a text stream hand PyYAML code points; a
   binary stream and a file (opened by yatiml in text mode, or handed over open in binary mode) hand it UTF-8 bytes.
   encode / decode are RFC 3629: shortest form only, no surrogates, nothing above U+10FFFF. *)
From Coq Require Import NArith List Bool.
Import ListNotations.
Open Scope N_scope.

Definition is_scalar_value (c : N) : bool := (c <? 55296) || ((57343 <? c) && (c <? 1114112)).

Definition encode_char (c : N) : list N :=
  if c <? 128 then [c]
  else if c <? 2048 then [192 + c / 64; 128 + c mod 64]
  else if c <? 65536 then [224 + c / 4096; 128 + (c / 64) mod 64; 128 + c mod 64]
  else [240 + c / 262144; 128 + (c / 4096) mod 64; 128 + (c / 64) mod 64; 128 + c mod 64].
Definition encode (s : list N) : list N := flat_map encode_char s.

Definition cont (b : N) : bool := (128 <=? b) && (b <? 192).

Fixpoint decode (bs : list N) : option (list N) :=
  match bs with
  | [] => Some []
  | b0 :: r =>
      if b0 <? 128 then option_map (cons b0) (decode r)
      else if b0 <? 192 then None                                       (* stray continuation byte *)
      else if b0 <? 224 then
        match r with
        | b1 :: r1 =>
            let c := (b0 - 192) * 64 + (b1 - 128) in
            if cont b1 && (128 <=? c) then option_map (cons c) (decode r1) else None
        | _ => None
        end
      else if b0 <? 240 then
        match r with
        | b1 :: b2 :: r2 =>
            let c := (b0 - 224) * 4096 + (b1 - 128) * 64 + (b2 - 128) in
            if cont b1 && cont b2 && (2048 <=? c) && is_scalar_value c then option_map (cons c) (decode r2) else None
        | _ => None
        end
      else if b0 <? 248 then
        match r with
        | b1 :: b2 :: b3 :: r3 =>
            let c := (b0 - 240) * 262144 + (b1 - 128) * 4096 + (b2 - 128) * 64 + (b3 - 128) in
            if cont b1 && cont b2 && cont b3 && (65536 <=? c) && (c <? 1114112) then option_map (cons c) (decode r3) else None
        | _ => None
        end
      else None
  end.

(* correspondence cases: (code points, bytes CPython's str.encode('utf-8') produced) *)
Fixpoint list_eqb (a b : list N) : bool :=
  match a, b with [], [] => true | x :: r, y :: r' => N.eqb x y && list_eqb r r' | _, _ => false end.
Record ucase := { uc_text : list N; uc_bytes : option (list N) }.       (* None: CPython refuses to encode (surrogates) *)
Definition ucase_ok (c : ucase) : bool :=
  match uc_bytes c with
  | Some bs => forallb is_scalar_value (uc_text c) && list_eqb (encode (uc_text c)) bs &&
               match decode bs with Some t => list_eqb t (uc_text c) | None => false end
  | None => negb (forallb is_scalar_value (uc_text c))
  end.
Fixpoint umism_from (i : N) (l : list ucase) : list N :=
  match l with [] => [] | c :: r => if ucase_ok c then umism_from (i + 1) r else i :: umism_from (i + 1) r end.
Definition utf8_mismatches (l : list ucase) : list N := umism_from 0 l.
