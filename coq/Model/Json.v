(* RFC 8259 as a relation between texts and JSON values -- the specification the
   rendered text is proved to belong to (Proofs/JsonGrammar.v).  Written to be read:
   it does not mention yatiml. *)
From Coq Require Import NArith ZArith List Bool String.
Import ListNotations.
From Y Require Import Prelude Re JsonEmit.
Open Scope N_scope.

Inductive jval := JVnull | JVbool (b : bool) | JVnum (text : ustring) | JVstr (s : ustring)
                | JVarr (l : list jval) | JVobj (l : list (ustring * jval)).

Definition ws_char (c : N) : Prop := c = 32 \/ c = 10 \/ c = 13 \/ c = 9.
Definition ws (s : ustring) : Prop := Forall ws_char s.

(* number = [ minus ] int [ frac ] [ exp ] *)
Definition digit := rng 48 57.
Definition json_number_re : re :=
  mkCat (opt (chr 45))
  (mkCat (mkAlt (chr 48) (mkCat (rng 49 57) (mkStar digit)))
  (mkCat (opt (mkCat (chr 46) (plus digit)))
         (opt (mkCat (Cls [(69,69); (101,101)]) (mkCat (opt (Cls [(43,43); (45,45)])) (plus digit)))))).
Definition json_number (t : ustring) : Prop := matches json_number_re t = true.

(* string = quotation-mark *char quotation-mark; the second index is the denoted sequence of code points *)
Definition simple_escape (e c : N) : Prop :=
  (e = 34 /\ c = 34) \/ (e = 92 /\ c = 92) \/ (e = 47 /\ c = 47) \/ (e = 98 /\ c = 8) \/ (e = 102 /\ c = 12) \/
  (e = 110 /\ c = 10) \/ (e = 114 /\ c = 13) \/ (e = 116 /\ c = 9).
Inductive str_body : ustring -> ustring -> Prop :=
| sb_nil : str_body [] []
| sb_raw c r s : 32 <= c -> c <> 34 -> c <> 92 -> str_body r s -> str_body (c :: r) (c :: s)
| sb_esc e c r s : simple_escape e c -> str_body r s -> str_body (92 :: e :: r) (c :: s)
| sb_u n r s : n < 65536 -> str_body r s -> str_body (uesc n ++ r) (n :: s)          (* \uXXXX: one UTF-16 unit *)
| sb_pair hi lo r s : 55296 <= hi < 56320 -> 56320 <= lo < 57344 -> str_body r s ->   (* a surrogate pair *)
                      str_body (uesc hi ++ uesc lo ++ r) ((65536 + (hi - 55296) * 1024 + (lo - 56320)) :: s).
Definition json_strlit (lit s : ustring) : Prop := exists body, lit = 34 :: body ++ [34] /\ str_body body s.

Inductive is_json : ustring -> jval -> Prop :=
| ij_null : is_json (u "null") JVnull
| ij_true : is_json (u "true") (JVbool true)
| ij_false : is_json (u "false") (JVbool false)
| ij_num t : json_number t -> is_json t (JVnum t)
| ij_str lit s : json_strlit lit s -> is_json lit (JVstr s)
| ij_arr0 w : ws w -> is_json ([91] ++ w ++ [93]) (JVarr [])
| ij_arr e vs : is_elems e vs -> is_json ([91] ++ e ++ [93]) (JVarr vs)
| ij_obj0 w : ws w -> is_json ([123] ++ w ++ [125]) (JVobj [])
| ij_obj e ms : is_members e ms -> is_json ([123] ++ e ++ [125]) (JVobj ms)
with is_elems : ustring -> list jval -> Prop :=
| ie_one w1 t v w2 : ws w1 -> is_json t v -> ws w2 -> is_elems (w1 ++ t ++ w2) [v]
| ie_cons w1 t v w2 rest vs : ws w1 -> is_json t v -> ws w2 -> is_elems rest vs ->
                              is_elems (w1 ++ t ++ w2 ++ [44] ++ rest) (v :: vs)
with is_members : ustring -> list (ustring * jval) -> Prop :=
| im_one w1 klit k w2 w3 t v w4 : ws w1 -> json_strlit klit k -> ws w2 -> ws w3 -> is_json t v -> ws w4 ->
                                  is_members (w1 ++ klit ++ w2 ++ [58] ++ w3 ++ t ++ w4) [(k, v)]
| im_cons w1 klit k w2 w3 t v w4 rest ms : ws w1 -> json_strlit klit k -> ws w2 -> ws w3 -> is_json t v -> ws w4 ->
                                           is_members rest ms ->
                                           is_members (w1 ++ klit ++ w2 ++ [58] ++ w3 ++ t ++ w4 ++ [44] ++ rest) ((k, v) :: ms).

(* a JSON text: ws value ws *)
Definition json_text (t : ustring) (v : jval) : Prop := exists w1 b w2, t = w1 ++ b ++ w2 /\ ws w1 /\ is_json b v /\ ws w2.

(* ---- the JSON projection of a tree, and the trees the property speaks about ---- *)
Definition is_true_text (v : ustring) : bool := ueqb (lower_ascii v) (u "true").
Definition is_false_text (v : ustring) : bool := ueqb (lower_ascii v) (u "false").
Fixpoint jproj (j : jtree) : jval :=
  match j with
  | JScalar t v =>
      if ueqb t tag_str then JVstr v
      else if ueqb t tag_null then JVnull
      else if ueqb t tag_bool then JVbool (is_true_text v)
      else if ueqb t tag_timestamp then JVstr v
      else JVnum v
  | JSeq l => JVarr (map jproj l)
  | JMap l => JVobj (map (fun kv => (match fst kv with JScalar _ k => k | _ => [] end, jproj (snd kv))) l)
  end.

Definition valid_str (s : ustring) : Prop := Forall (fun c => c < 1114112) s.
(* plain-data trees with string keys, booleans spelt true/false in any case, finite numbers in JSON syntax *)
Fixpoint tree_ok (j : jtree) : Prop :=
  match j with
  | JScalar t v =>
      if ueqb t tag_str || ueqb t tag_timestamp then valid_str v
      else if ueqb t tag_null then True
      else if ueqb t tag_bool then is_true_text v = true \/ is_false_text v = true
      else json_number v
  | JSeq l => (fix all (l : list jtree) : Prop := match l with [] => True | x :: r => tree_ok x /\ all r end) l
  | JMap l => (fix all (l : list (jtree * jtree)) : Prop :=
                 match l with
                 | [] => True
                 | kv :: r => ((exists k, fst kv = JScalar tag_str k /\ valid_str k) /\ tree_ok (snd kv)) /\ all r
                 end) l
  end.
