(* Model of the dumping side: PyYAML's SafeRepresenter for built-in values, yatiml's
   Representer / EnumRepresenter / UserStringRepresenter / PathRepresenter, the sweeten
   chain; the serializer's implicit-tag rule; and the node-level effect of writing a
   document and reading it back (reparse). *)
From Coq Require Import NArith ZArith List Bool String.
Import ListNotations.
From Y Require Import Prelude Node Re Resolve Tables Images NodeOps Types Recognize Loader Hooks.
Open Scope N_scope.

(* dump-side objects: VObj d attrs where attrs lists EVERY constructor parameter in declaration order with the
   value of the attribute of that name, followed by (_yatiml_extra, VDict ...) if the class takes it *)

Definition repr_key : ustring := u "repr:float".     (* oracle: float.hex() -> the text represent_float writes *)

Definition space_for_T (s : ustring) : ustring := map (fun c => if N.eqb c 84 then 32 else c) s.

Section dump.
  Variable o : oracle.
  Variable reg : registry.

  (* Representer.__sweeten: registered bases first, then the class's own hook *)
  Fixpoint sweeten_order (fuel : nat) (c : ustring) : list ustring :=
    match fuel with
    | O => []
    | S f =>
        match find_cls reg c with
        | None => []
        | Some k =>
            flat_map (sweeten_order f) (registered_bases reg k)
            ++ (match c_sweeten k with Some _ => [c] | None => [] end)
        end
    end.
  Definition apply_sweeten (n : result node) (c : ustring) : result node :=
    x <- n ;;
    match find_cls reg c with
    | Some k => match c_sweeten k with Some h => h x | None => Ok x end
    | None => Ok x
    end.
  Definition sweeten (fuel : nat) (c : ustring) (n : node) : result node :=
    fold_left apply_sweeten (sweeten_order fuel c) (Ok n).


  Fixpoint represent_items (rec : value -> result node) (l : list value) : result (list node) :=
    match l with
    | [] => Ok []
    | x :: r => x' <- rec x ;; r' <- represent_items rec r ;; Ok (x' :: r')
    end.
  Fixpoint represent_pairs (rec : value -> result node) (l : list (value * value)) : result (list (node * node)) :=
    match l with
    | [] => Ok []
    | (k, v) :: r => k' <- rec k ;; v' <- rec v ;; r' <- represent_pairs rec r ;; Ok ((k', v') :: r')
    end.
  Fixpoint represent_attrs (rec : value -> result node) (l : list (ustring * value)) : result (list (node * node)) :=
    match l with
    | [] => Ok []
    | (a, v) :: r =>
        if ueqb a extra_name then
          match v with
          | VDict items => items' <- represent_pairs rec items ;; r' <- represent_attrs rec r ;; Ok (items' ++ r')
          | _ => Err (EPy PyAttributeError)
          end
        else v' <- rec v ;; r' <- represent_attrs rec r ;; Ok ((Scalar tag_str a genmark, v') :: r')
    end.

  Fixpoint represent (fuel : nat) (v : value) {struct fuel} : result node :=
    match fuel with
    | O => Err EFuel
    | S f =>
        match v with
        | VStr s => Ok (Scalar tag_str s genmark)
        | VInt z => Ok (Scalar tag_int (z_to_dec z) genmark)
        | VFloat h => match olookup o repr_key h with Ok (VStr t) => Ok (Scalar tag_float t genmark) | _ => Err EOracle end
        | VBool b => Ok (Scalar tag_bool (if b then u "true" else u "false") genmark)
        | VNone => Ok (Scalar tag_null (u "null") genmark)
        | VDate iso => Ok (Scalar tag_timestamp iso genmark)
        | VDateTime iso => Ok (Scalar tag_timestamp (space_for_T iso) genmark)
        | VBytes _ => Err EYaml                              (* !!binary: not a supported type *)
        | VPath s => Ok (Scalar tag_str s genmark)
        | VList l => l' <- represent_items (represent f) l ;; Ok (Seq tag_seq l' genmark)
        | VDict l => l' <- represent_pairs (represent f) l ;; Ok (Map tag_map l' genmark)
        | VEnum d m => if registered reg d then Ok (Scalar tag_str m genmark) else Err EYaml
        | VUStr d s => if registered reg d then Ok (Scalar tag_str s genmark) else Err EYaml
        | VObj d attrs =>
            if registered reg d then
              ps <- represent_attrs (represent f) attrs ;;
              sweeten FUELK d (Map tag_map ps genmark)
            else Err EYaml                                   (* RepresenterError: no representer for this class *)
        end
    end.

  (* ---- the serializer's implicit rule, with the dumper's resolver table ---- *)
  Definition implicit_scalar (t v : ustring) : bool :=
    ueqb (resolve dumper_tbl v) t || ueqb t tag_str.
  Fixpoint shape_ok (p : ustring -> ustring -> bool) (n : node) : bool :=
    match n with
    | Scalar t v _ => p t v
    | Seq t l _ => ueqb t tag_seq && forallb (shape_ok p) l
    | Map t l _ => ueqb t tag_map && forallb (fun kv => shape_ok p (fst kv) && shape_ok p (snd kv)) l
    end.
  Definition tag_free : node -> bool := shape_ok implicit_scalar.
  (* a scalar the dumper may write without quotes is resolved by the reader (table rd) to the tag it had *)
  Definition rt_scalar (rd : table) (t v : ustring) : bool :=
    negb (ueqb (resolve dumper_tbl v) t) || ueqb (resolve rd v) t.
  Definition rt_stable (rd : table) : node -> bool := shape_ok (rt_scalar rd).
End dump.

(* ---- writing a node tree as YAML and composing it again, at node level.  `plain_ok v` abstracts the emitter's
        decision whether the text may be written unquoted; the theorems hold for every such decision.  rd is the
        implicit-resolver table of whoever reads the text. ---- *)
Section reparse.
  Variable rd : table.
  Variable plain_ok : ustring -> bool.
  Fixpoint reparse (n : node) : node :=
    match n with
    | Scalar t v m =>
        if ueqb (resolve dumper_tbl v) t && plain_ok v then Scalar (resolve rd v) v m    (* written plain *)
        else if ueqb t tag_str then Scalar tag_str v m                                    (* written quoted *)
        else Scalar t v m                                                                 (* explicit tag *)
    | Seq t l m => Seq t (map reparse l) m
    | Map t l m => Map t (map (fun kv => (reparse (fst kv), reparse (snd kv))) l) m
    end.
End reparse.

(* ---- the specification side of C06 ---- *)
(* what a plain YAML parser (yaml.safe_load) builds from a node tree: strings as they are, other scalars through
   PyYAML's constructors (the oracle), sequences and mappings in order *)
Definition mapR {A B} (f : A -> result B) : list A -> result (list B) :=
  fix go (l : list A) : result (list B) :=
    match l with [] => Ok [] | x :: r => x' <- f x ;; r' <- go r ;; Ok (x' :: r') end.
Fixpoint plain_read (o : oracle) (n : node) : result value :=
  match n with
  | Scalar t v _ => if ueqb t tag_str then Ok (VStr v) else olookup o t v
  | Seq _ l _ => l' <- mapR (plain_read o) l ;; Ok (VList l')
  | Map _ l _ =>
      l' <- mapR (fun kv => k' <- plain_read o (fst kv) ;; v' <- plain_read o (snd kv) ;; Ok (k', v')) l ;;
      Ok (VDict l')
  end.

(* the object's projection, as the property words it: constructor parameters in declaration order followed by the
   extra attributes, enum members by name, string-likes and paths by str(), list and dict order kept *)
Fixpoint projection (v : value) : value :=
  match v with
  | VEnum _ m => VStr m
  | VUStr _ s => VStr s
  | VPath s => VStr s
  | VList l => VList (map projection l)
  | VDict l => VDict (map (fun '(k, x) => (projection k, projection x)) l)
  | VObj _ attrs =>
      VDict ((fix go (l : list (ustring * value)) : list (value * value) :=
                match l with
                | [] => []
                | (a, x) :: r =>
                    if ueqb a extra_name then
                      match x with
                      | VDict items => map (fun '(k, y) => (projection k, projection y)) items ++ go r
                      | _ => go r
                      end
                    else (VStr a, projection x) :: go r
                end) attrs)
  | _ => v
  end.

(* leaf premises: what PyYAML/CPython write for a float, date or datetime is in the expected language, and a plain
   parser reads every leaf text back as the same value.  Evaluated by the tie on every generated case. *)
Definition leaf_ok (o : oracle) (v : value) : bool :=
  match v with
  | VInt z => match olookup o tag_int (z_to_dec z) with Ok (VInt z') => Z.eqb z z' | _ => false end
  | VFloat h =>
      match olookup o repr_key h with
      | Ok (VStr t) => matches float_image t &&
                       match olookup o tag_float t with Ok (VFloat h') => ueqb h h' | _ => false end
      | _ => false
      end
  | VBool b => match olookup o tag_bool (if b then u "true" else u "false") with Ok (VBool b') => Bool.eqb b b' | _ => false end
  | VNone => match olookup o tag_null (u "null") with Ok VNone => true | _ => false end
  | VDate iso => matches date_image iso &&
                 match olookup o tag_timestamp iso with Ok (VDate i') => ueqb iso i' | _ => false end
  | VDateTime iso => matches datetime_image (space_for_T iso) &&
                     match olookup o tag_timestamp (space_for_T iso) with Ok (VDateTime i') => ueqb iso i' | _ => false end
  | VBytes _ => false
  | VStr s | VPath s | VEnum _ s | VUStr _ s => valid s
  | _ => true
  end.
Fixpoint leaves_ok (o : oracle) (v : value) : bool :=
  match v with
  | VList l => forallb (leaves_ok o) l
  | VDict l => forallb (fun '(k, x) => leaves_ok o k && leaves_ok o x) l
  | VObj _ attrs => forallb (fun '(a, x) => valid a && leaves_ok o x) attrs
  | _ => leaf_ok o v
  end.


(* correspondence cases for the representer *)
Record repcase := { rc_oracle : oracle; rc_specs : list Hooks.cls_spec; rc_value : value; rc_expect : result node }.
Definition repcase_ok (c : repcase) : bool :=
  match represent (rc_oracle c) (Hooks.interp_reg (rc_oracle c) (rc_specs c)) Loader.FUEL (rc_value c), rc_expect c with
  | Ok a, Ok b => node_eqb a b && leaves_ok (rc_oracle c) (rc_value c)
  | Err e, Err e' => exn_eqb e e'
  | _, _ => false
  end.
Fixpoint rpmism_from (i : N) (l : list repcase) : list N :=
  match l with [] => [] | c :: r => if repcase_ok c then rpmism_from (i + 1) r else i :: rpmism_from (i + 1) r end.
Definition rep_mismatches (l : list repcase) : list N := rpmism_from 0 l.
