(* C18: documents with anchors and aliases are node GRAPHS (PyYAML composes an alias as the same
   node object).  Model of Loader.__expand_aliases: every reference becomes a copy; a node that
   contains itself is rejected. *)
From Coq Require Import NArith ZArith List Bool String Lia.
Import ListNotations.
From Y Require Import Prelude Node Tables NodeOps Types Recognize Loader.
Open Scope N_scope.

Definition loc := nat.
Inductive cell :=
| CScalar (t v : ustring) (m : mark)
| CSeq (t : ustring) (items : list loc) (m : mark)
| CMap (t : ustring) (pairs : list (loc * loc)) (m : mark).
Definition graph := list cell.        (* a location is an index into the list *)

Fixpoint map_res {A B} (f : A -> result B) (l : list A) : result (list B) :=
  match l with
  | [] => Ok []
  | x :: r => x' <- f x ;; r' <- map_res f r ;; Ok (x' :: r')
  end.

Fixpoint expand (fuel : nat) (g : graph) (path : list loc) (l : loc) : result node :=
  match fuel with
  | O => Err EFuel
  | S f =>
      if existsb (Nat.eqb l) path then Err ERecognition          (* the node contains a reference to itself *)
      else match nth_error g l with
           | None => Err EYaml                                   (* dangling location: the composer never produces one *)
           | Some (CScalar t v m) => Ok (Scalar t v m)
           | Some (CSeq t items m) => items' <- map_res (expand f g (l :: path)) items ;; Ok (Seq t items' m)
           | Some (CMap t ps m) =>
               ps' <- map_res (fun kv => k <- expand f g (l :: path) (fst kv) ;;
                                         v <- expand f g (l :: path) (snd kv) ;; Ok (k, v)) ps ;;
               Ok (Map t ps' m)
           end
  end.

Definition expand_graph (g : graph) (root : loc) : result node := expand (S (List.length g)) g [] root.

(* loading a document given as a graph: expand, then the tree pipeline *)
Definition load_graph (o : oracle) (reg : registry) (g : graph) (root : loc) (T : ty) : result value :=
  n <- expand_graph g root ;; load o reg (Some n) T.

(* correspondence cases: the composed graph, and what Loader.__expand_aliases returned *)
Record expcase := { ec_graph : graph; ec_root : loc; ec_expect : result node }.
Definition expcase_ok (c : expcase) : bool :=
  match expand_graph (ec_graph c) (ec_root c), ec_expect c with
  | Ok a, Ok b => node_eqb a b
  | Err e, Err e' => exn_eqb e e'
  | _, _ => false
  end.
Fixpoint emism_from (i : N) (l : list expcase) : list N :=
  match l with [] => [] | c :: r => if expcase_ok c then emism_from (i + 1) r else i :: emism_from (i + 1) r end.
Definition exp_mismatches (l : list expcase) : list N := emism_from 0 l.
