(* C11: the registries behind load and dump functions as a state machine.
   PyYAML keeps constructor / representer tables as CLASS attributes that subclasses inherit until they first
   write (add_constructor copies the inherited dict, then writes to the copy).  yatiml creates one fresh
   subclass per load_function / dump*_function call and registers the user's classes with it.  Resolver patches are
   written to loader/dumper INSTANCES, which die with the call.  A registry entry records which function's class it
   came from (owner), so same-named classes of different functions are different entries. *)
From Coq Require Import NArith List Bool String.
Import ListNotations.
From Y Require Import Prelude.
Open Scope N_scope.
Local Open Scope string_scope.

Definition entry := (ustring * N)%type.                 (* tag or type name |-> owner (0 = PyYAML itself) *)
Definition tbl := list entry.
Fixpoint tlookup (t : tbl) (k : ustring) : option N :=
  match t with [] => None | (k', v) :: r => if ueqb k k' then Some v else tlookup r k end.
Fixpoint tset (t : tbl) (k : ustring) (v : N) : tbl :=
  match t with
  | [] => [(k, v)]
  | (k', v') :: r => if ueqb k k' then (k, v) :: r else (k', v') :: tset r k v
  end.

(* a function's own class-level state: None = still inheriting the base table *)
Record fn := { f_table : option tbl; f_classes : list ustring }.
Record world := { base_ctor : tbl; base_repr : tbl; loaders : list fn; dumpers : list fn }.

Inductive op :=
| NewLoad (classes : list ustring)               (* load_function(classes...): registers !Path, then the classes *)
| NewDump (json : bool) (classes : list ustring) (* dump(s)_function / dump(s)_json_function (the latter register the Path types first) *)
| CallLoad (i : nat) | CallDump (i : nat).       (* calls create an instance, patch ITS resolvers, and drop it *)

(* add_constructor / add_representer on a fresh subclass: copy on first write *)
Definition register (base : tbl) (owner : N) (f : fn) (c : ustring) : fn :=
  let t := match f_table f with Some t => t | None => base end in
  {| f_table := Some (tset t c owner); f_classes := f_classes f ++ [c] |}.
Definition new_fn (base : tbl) (owner : N) (classes : list ustring) : fn :=
  fold_left (register base owner) classes {| f_table := None; f_classes := [] |}.

Definition bang (c : ustring) : ustring := 33 :: c.
Definition step (w : world) (o : op) : world :=
  match o with
  | NewLoad cs => {| base_ctor := base_ctor w; base_repr := base_repr w;
                     loaders := loaders w ++ [new_fn (base_ctor w) (N.of_nat (S (List.length (loaders w))))
                                                     (bang (u "Path") :: map bang cs)];
                     dumpers := dumpers w |}
  | NewDump json cs => {| base_ctor := base_ctor w; base_repr := base_repr w; loaders := loaders w;
                          dumpers := dumpers w ++ [new_fn (base_repr w) (N.of_nat (S (List.length (dumpers w))))
                                                          ((if json then [u "PosixPath"; u "WindowsPath"] else []) ++ cs)] |}
  | CallLoad _ | CallDump _ => w
  end.
Definition run (w : world) (ops : list op) : world := fold_left step ops w.

(* what function i sees *)
Definition view (base : tbl) (f : fn) : tbl := match f_table f with Some t => t | None => base end.

(* ---- correspondence cases: after a history, the observable tables ---- *)
Record wobs := { o_base_ctor : tbl; o_base_repr : tbl; o_loaders : list tbl; o_dumpers : list tbl }.
Definition observe (w : world) : wobs :=
  {| o_base_ctor := base_ctor w; o_base_repr := base_repr w;
     o_loaders := map (view (base_ctor w)) (loaders w); o_dumpers := map (view (base_repr w)) (dumpers w) |}.
Fixpoint tbl_eqb (a b : tbl) : bool :=
  match a, b with
  | [], [] => true
  | (k, v) :: r, (k', v') :: r' => ueqb k k' && N.eqb v v' && tbl_eqb r r'
  | _, _ => false
  end.
Fixpoint tbls_eqb (a b : list tbl) : bool :=
  match a, b with [], [] => true | x :: r, y :: r' => tbl_eqb x y && tbls_eqb r r' | _, _ => false end.
Record wcase := { wc_base_ctor : tbl; wc_base_repr : tbl; wc_ops : list op; wc_expect : wobs }.
Definition wcase_ok (c : wcase) : bool :=
  let o := observe (run {| base_ctor := wc_base_ctor c; base_repr := wc_base_repr c; loaders := []; dumpers := [] |} (wc_ops c)) in
  tbl_eqb (o_base_ctor o) (o_base_ctor (wc_expect c)) && tbl_eqb (o_base_repr o) (o_base_repr (wc_expect c)) &&
  tbls_eqb (o_loaders o) (o_loaders (wc_expect c)) && tbls_eqb (o_dumpers o) (o_dumpers (wc_expect c)).
Fixpoint wmism_from (i : N) (l : list wcase) : list N :=
  match l with [] => [] | c :: r => if wcase_ok c then wmism_from (i + 1) r else i :: wmism_from (i + 1) r end.
Definition world_mismatches (l : list wcase) : list N := wmism_from 0 l.
