(* Model of yatiml.dumper.Dumper.emit_json: an event-driven pushdown machine
   writing JSON, and the recursive printer it is proved equal to (Proofs/JsonProofs.v). *)
From Coq Require Import NArith ZArith List Bool String.
Import ListNotations.
From Y Require Import Prelude Node.
Open Scope N_scope.

(* the node tree handed to the serializer, as far as the JSON emitter can see it *)
Inductive jtree :=
| JScalar (tag : ustring) (v : ustring)
| JSeq (items : list jtree)
| JMap (pairs : list (jtree * jtree)).

Section jtree_ind2.
  Variable P : jtree -> Prop.
  Hypothesis Hs : forall t v, P (JScalar t v).
  Hypothesis Hq : forall l, Forall P l -> P (JSeq l).
  Hypothesis Hm : forall l, Forall (fun kv => P (fst kv) /\ P (snd kv)) l -> P (JMap l).
  Fixpoint jtree_ind2 (j : jtree) : P j :=
    match j with
    | JScalar t v => Hs t v
    | JSeq l => Hq l ((fix go (l : list jtree) : Forall P l :=
                         match l with [] => Forall_nil _ | x :: r => Forall_cons _ (jtree_ind2 x) (go r) end) l)
    | JMap l => Hm l ((fix go (l : list (jtree * jtree)) : Forall (fun kv => P (fst kv) /\ P (snd kv)) l :=
                         match l with
                         | [] => Forall_nil _
                         | p :: r => Forall_cons p (conj (jtree_ind2 (fst p)) (jtree_ind2 (snd p))) (go r)
                         end) l)
    end.
End jtree_ind2.

Inductive ev := EvStreamStart | EvDocStart | EvDocEnd | EvStreamEnd
              | EvScalar (tag v : ustring) | EvSeqStart | EvSeqEnd | EvMapStart | EvMapEnd | EvAlias.

(* what the serializer sends for a tree (no node is shared: trees only) *)
Fixpoint events (j : jtree) : list ev :=
  match j with
  | JScalar t v => [EvScalar t v]
  | JSeq l => EvSeqStart :: flat_map events l ++ [EvSeqEnd]
  | JMap l => EvMapStart :: flat_map (fun kv => events (fst kv) ++ events (snd kv)) l ++ [EvMapEnd]
  end.
Definition stream (j : jtree) : list ev := [EvStreamStart; EvDocStart] ++ events j ++ [EvDocEnd; EvStreamEnd].

(* ---- options ---- *)
Record jopts := { jo_indent : option nat;      (* the indent= argument *)
                  jo_ascii : bool }.           (* ensure_ascii (allow_unicode = not ensure_ascii) *)
(* yaml.emitter.Emitter: best_indent = indent if 1 < indent < 10 else 2 *)
Definition best_indent (o : jopts) : nat :=
  match jo_indent o with
  | Some i => if Nat.ltb 1 i && Nat.ltb i 10 then i else 2%nat
  | None => 2%nat
  end.
Definition kv_sep (o : jopts) : ustring := match jo_indent o with Some _ => [58; 32] | None => [58] end.
Definition spaces (n : nat) : ustring := repeat 32 n.
(* Dumper._do_endline *)
Definition endl (o : jopts) (ind : nat) : ustring :=
  match jo_indent o with Some _ => 10 :: spaces ind | None => [] end.

(* ---- json.dumps on a str ---- *)
Definition hexdigit (d : N) : N := if d <? 10 then 48 + d else 87 + d.          (* lower-case, as json.dumps *)
Definition hex4 (n : N) : ustring :=
  [hexdigit (N.shiftr n 12 mod 16); hexdigit (N.shiftr n 8 mod 16); hexdigit (N.shiftr n 4 mod 16); hexdigit (n mod 16)].
Definition uesc (n : N) : ustring := 92 :: 117 :: hex4 n.                       (* \uXXXX *)
Definition json_escape_char (ascii : bool) (c : N) : ustring :=
  if c =? 34 then [92; 34] else if c =? 92 then [92; 92]
  else if c =? 10 then [92; 110] else if c =? 13 then [92; 114] else if c =? 9 then [92; 116]
  else if c =? 8 then [92; 98] else if c =? 12 then [92; 102]
  else if c <? 32 then uesc c
  else if ascii && (126 <? c) then
         if c <? 65536 then uesc c
         else let v := c - 65536 in uesc (55296 + N.shiftr v 10) ++ uesc (56320 + v mod 1024)
  else [c].
Definition json_string (ascii : bool) (s : ustring) : ustring :=
  34 :: flat_map (json_escape_char ascii) s ++ [34].

Definition lower_ascii (s : ustring) : ustring := map (fun c => if (65 <=? c) && (c <=? 90) then c + 32 else c) s.

(* scalar rendering by tag *)
Definition scalar_text (o : jopts) (t v : ustring) : ustring :=
  if ueqb t tag_str then json_string (jo_ascii o) v
  else if ueqb t tag_null then u "null"
  else if ueqb t tag_bool then lower_ascii v
  else if ueqb t tag_timestamp then json_string (jo_ascii o) v
  else v.                                                    (* numbers verbatim *)

(* ---- the state machine ---- *)
Inductive jstate := JNone | JSeqSt | JSeqFirst | JKey | JKeyFirst | JValue.
Record emitter := { e_stack : list jstate; e_indent : nat; e_out : ustring }.
Definition e_init : emitter := {| e_stack := [JNone]; e_indent := 0; e_out := [] |}.

Definition write (e : emitter) (s : ustring) : emitter :=
  {| e_stack := e_stack e; e_indent := e_indent e; e_out := e_out e ++ s |}.

Definition next_state (s : jstate) : jstate :=
  match s with JSeqFirst => JSeqSt | JKeyFirst => JValue | JKey => JValue | JValue => JKey | s => s end.

(* one call of emit_json; None = RuntimeError (alias) or a malformed event sequence (empty stack) *)
Definition emit_json (o : jopts) (e : emitter) (x : ev) : option emitter :=
  match x with
  | EvAlias => None
  | EvSeqEnd | EvMapEnd =>
      match e_stack e with
      | _ :: rest =>
          let ind := (e_indent e - best_indent o)%nat in
          Some {| e_stack := rest; e_indent := ind;
                  e_out := e_out e ++ endl o ind ++ (match x with EvSeqEnd => [93] | _ => [125] end) |}
      | [] => None
      end
  | EvDocEnd => Some (write e (endl o (e_indent e)))
  | _ =>
      match e_stack e with
      | cur :: rest =>
          (* separator *)
          let sep := match cur with
                     | JSeqSt | JKey => 44 :: endl o (e_indent e)
                     | JValue => kv_sep o
                     | _ => [] end in
          let e1 := write e sep in
          (* value *)
          let e2 := match x with
                    | EvSeqStart =>
                        let ind := (e_indent e1 + best_indent o)%nat in
                        {| e_stack := JSeqFirst :: next_state cur :: rest; e_indent := ind;
                           e_out := e_out e1 ++ [91] ++ endl o ind |}
                    | EvMapStart =>
                        let ind := (e_indent e1 + best_indent o)%nat in
                        {| e_stack := JKeyFirst :: next_state cur :: rest; e_indent := ind;
                           e_out := e_out e1 ++ [123] ++ endl o ind |}
                    | EvScalar t v =>
                        {| e_stack := next_state cur :: rest; e_indent := e_indent e1;
                           e_out := e_out e1 ++ scalar_text o t v |}
                    | _ => {| e_stack := next_state cur :: rest; e_indent := e_indent e1; e_out := e_out e1 |}
                    end in
          Some e2
      | [] => None
      end
  end.

Fixpoint run_emit (o : jopts) (e : emitter) (l : list ev) : option emitter :=
  match l with
  | [] => Some e
  | x :: r => match emit_json o e x with Some e' => run_emit o e' r | None => None end
  end.
Definition dumps_json (o : jopts) (j : jtree) : option ustring :=
  match run_emit o e_init (stream j) with Some e => Some (e_out e) | None => None end.

(* ---- the recursive printer ---- *)
Fixpoint join (sep : ustring) (l : list ustring) : ustring :=
  match l with
  | [] => []
  | [x] => x
  | x :: r => x ++ sep ++ join sep r
  end.
Fixpoint render (o : jopts) (ind : nat) (j : jtree) : ustring :=
  let bi := best_indent o in
  match j with
  | JScalar t v => scalar_text o t v
  | JSeq l => [91] ++ endl o (ind + bi) ++ join (44 :: endl o (ind + bi)) (map (render o (ind + bi)) l)
              ++ endl o ind ++ [93]
  | JMap l => [123] ++ endl o (ind + bi)
              ++ join (44 :: endl o (ind + bi))
                      (map (fun kv => render o (ind + bi) (fst kv) ++ kv_sep o ++ render o (ind + bi) (snd kv)) l)
              ++ endl o ind ++ [125]
  end.
Definition render_doc (o : jopts) (j : jtree) : ustring := render o 0 j ++ endl o 0.

(* correspondence cases: options, the tree the representer built, and the text the implementation wrote *)
Record jcase := { jc_indent : option nat; jc_ascii : bool; jc_tree : jtree; jc_expect : option ustring }.
Definition jcase_ok (c : jcase) : bool :=
  let o := {| jo_indent := jc_indent c; jo_ascii := jc_ascii c |} in
  match dumps_json o (jc_tree c), jc_expect c with
  | Some a, Some b => ueqb a b && ueqb (render_doc o (jc_tree c)) b
  | None, None => true
  | _, _ => false
  end.
Fixpoint jmism_from (i : N) (l : list jcase) : list N :=
  match l with [] => [] | c :: r => if jcase_ok c then jmism_from (i + 1) r else i :: jmism_from (i + 1) r end.
Definition json_mismatches (l : list jcase) : list N := jmism_from 0 l.
