(* Correspondence cases for the load pipeline: class model (specs), declared type,
   composed document, and the implementation's outcome. *)
From Coq Require Import NArith ZArith List Bool String.
Import ListNotations.
From Y Require Import Prelude Node Tables NodeOps OpsRun Types Recognize Loader Hooks Spec.
Open Scope N_scope.

Record loadcase := { lc_oracle : oracle; lc_specs : list cls_spec; lc_type : ty;
                     lc_doc : option node; lc_expect : result value;
                     lc_calls : option (list call)   (* user-code calls the implementation logged, if compared *) }.

(* When a document contains two different errors in sibling nodes -- one reported as RecognitionError by a yatiml
   constructor's first phase (non-string key), one as a YAML error by a PyYAML scalar/collection constructor --
   which of the two surfaces depends on PyYAML's scheduling of deferred generator bodies (construction is two-phase,
   breadth-first over generators), which the depth-first model does not reproduce.  Both are failures of the load; the
   tie therefore identifies these two classes when BOTH sides fail.  (Which classes may leave load() at all is C08's
   business and is judged on the implementation directly.) *)
Definition load_error (e : exn) : bool := match e with ERecognition | EYaml => true | _ => false end.
Definition outcome_eqb (a b : result value) : bool :=
  match a, b with
  | Ok x, Ok y => value_eqb x y
  | Err (EPy _), Err (EPy _) => true     (* crashes caused by a hook misusing the Node API: only "some Python exception"
                                            is compared, as in OpsRun.oret_eqb (which builtin exception a later unpacking of a
                                            mangled node raises is CPython detail) *)
  | Err e, Err e' => exn_eqb e e' || (load_error e && load_error e')
  | _, _ => false
  end.
Definition run_load (c : loadcase) : result value :=
  load (lc_oracle c) (interp_reg (lc_oracle c) (lc_specs c)) (lc_doc c) (lc_type c).
(* every call into user code the implementation made is one the model's construction can make: the calls of a
   construction in which no user constructor refuses (PyYAML defers generator bodies, so on a FAILING load the
   set of calls made before the failure depends on its scheduling; the potential calls bound it from above, and
   on a successful load the two multisets coincide) *)
Definition permissive (k : cls) : cls :=
  {| c_name := c_name k; c_bases := c_bases k; c_ancestors := c_ancestors k; c_abstract := c_abstract k;
     c_shape := c_shape k; c_recognize := c_recognize k; c_savorize := c_savorize k; c_sweeten := c_sweeten k;
     c_init_ok := fun _ => true; c_str_ok := fun _ => true |}.
Definition potential_calls (c : loadcase) : list call :=
  let reg := interp_reg (lc_oracle c) (lc_specs c) in
  match process (lc_oracle c) reg FUEL (match lc_doc c with Some n => n | None => Scalar tag_null [] nomark end) (lc_type c) with
  | Ok n' => fst (constructL (lc_oracle c) (map permissive reg) FUEL n')
  | Err _ => []
  end.
Definition kw_eqb (a b : list (ustring * value)) : bool :=
  (fix go (a b : list (ustring * value)) : bool :=
     match a, b with
     | [], [] => true
     | (k, v) :: r, (k', v') :: r' => ueqb k k' && value_eqb v v' && go r r'
     | _, _ => false end) a b.
Definition call_eqb (a b : call) : bool :=
  match a, b with
  | CallInit c x, CallInit c' x' => ueqb c c' && kw_eqb x x'
  | CallStr c s, CallStr c' s' => ueqb c c' && ueqb s s'
  | _, _ => false
  end.
Fixpoint remove_call (x : call) (l : list call) : option (list call) :=
  match l with
  | [] => None
  | y :: r => if call_eqb x y then Some r
              else match remove_call x r with Some r' => Some (y :: r') | None => None end
  end.
Fixpoint sub_multiset (a b : list call) : bool :=
  match a with
  | [] => true
  | x :: r => match remove_call x b with Some b' => sub_multiset r b' | None => false end
  end.
Definition calls_ok (c : loadcase) : bool :=
  match lc_calls c with
  | None => true
  | Some impl =>
      let pot := potential_calls c in
      sub_multiset impl pot &&
      match lc_expect c with Ok _ => Nat.eqb (List.length impl) (List.length pot) | Err _ => true end
  end.

(* Python's view of subclassing (the MRO in c_ancestors) contains the class itself and is closed under registered
   direct bases: hypothesis of C02_constructor_accepts_conforming *)
Definition ancestors_okb (reg : registry) : bool :=
  forallb (fun k => umem (c_name k) (c_ancestors k) &&
                    forallb (fun m => match find_cls reg m with
                                      | Some km => forallb (fun a => umem a (c_ancestors k)) (c_ancestors km)
                                      | None => true end) (c_bases k)) reg.

(* the model agrees with the implementation's outcome, and the case satisfies the hypotheses of the theorems *)
Definition loadcase_ok (c : loadcase) : bool :=
  outcome_eqb (run_load c) (lc_expect c) && calls_ok c
  && oracle_wfb (lc_oracle c) && wf_registryb (interp_reg (lc_oracle c) (lc_specs c))
  && ancestors_okb (interp_reg (lc_oracle c) (lc_specs c)).

Fixpoint lmism_from (i : N) (l : list loadcase) : list N :=
  match l with
  | [] => []
  | c :: r => if loadcase_ok c then lmism_from (i + 1) r else i :: lmism_from (i + 1) r
  end.
Definition load_mismatches (l : list loadcase) : list N := lmism_from 0 l.

(* what the model computes, compactly, for diagnosis *)
Inductive brief := BOk | BErr (e : exn).
Definition brief_of (r : result value) : brief := match r with Ok _ => BOk | Err e => BErr e end.

(* ---- UnknownNode.require_* cases (C16) ---- *)
Record reqcase := { rq_oracle : oracle; rq_specs : list cls_spec; rq_node : node; rq_op : rop;
                    rq_expect : option bool  (* Some true: returned; Some false: RecognitionError; None: other exception *) }.
Definition recog_cb (o : oracle) (reg : registry) (n : node) (t : ty) : bool :=
  match recognize o reg FUEL n t with Ok (tys, _) => negb (is_nil tys) | Err _ => false end.
Definition run_req (c : reqcase) : option bool :=
  let reg := interp_reg (rq_oracle c) (rq_specs c) in
  match rq_op c with
  | RqAttr a (Some T) =>
      (* a type yatiml cannot recognise makes recognize() raise RecognitionError *)
      match rq_node c with
      | Map _ ps _ =>
          match lookup_all a ps with
          | [] => Some false
          | v :: _ => match recognize (rq_oracle c) reg FUEL v T with
                      | Ok (tys, _) => Some (negb (is_nil tys))
                      | Err ERecognition => Some false
                      | Err _ => None end
          end
      | _ => Some false
      end
  | op => match require (rq_oracle c) (recog_cb (rq_oracle c) reg) (rq_node c) op with
          | Ok b => Some b
          | Err _ => None end
  end.
Definition reqcase_ok (c : reqcase) : bool :=
  match run_req c, rq_expect c with
  | Some a, Some b => Bool.eqb a b
  | None, None => true
  | _, _ => false
  end.
Fixpoint rmism_from (i : N) (l : list reqcase) : list N :=
  match l with
  | [] => []
  | c :: r => if reqcase_ok c then rmism_from (i + 1) r else i :: rmism_from (i + 1) r
  end.
Definition req_mismatches (l : list reqcase) : list N := rmism_from 0 l.

(* ---- hook order cases (C10): which classes' own savorize hooks run, in order, for a node loaded as class c ---- *)
Record savcase := { sv_specs : list cls_spec; sv_class : ustring; sv_expect : list ustring }.
Fixpoint ulist_eqb (a b : list ustring) : bool :=
  match a, b with [], [] => true | x :: r, y :: r' => ueqb x y && ulist_eqb r r' | _, _ => false end.
Definition savcase_ok (c : savcase) : bool :=
  ulist_eqb (savorize_order (interp_reg [] (sv_specs c)) FUELK (sv_class c)) (sv_expect c).
Fixpoint smism_from (i : N) (l : list savcase) : list N :=
  match l with [] => [] | c :: r => if savcase_ok c then smism_from (i + 1) r else i :: smism_from (i + 1) r end.
Definition sav_mismatches (l : list savcase) : list N := smism_from 0 l.
