(* The interface to PyYAML: composed node trees, constructed values, errors. *)
From Coq Require Import NArith ZArith List Bool String.
Import ListNotations.
From Y Require Import Prelude.
Open Scope N_scope.

(* ---- errors ---- *)
Inductive pyexn := PyKeyError | PyValueError | PyTypeError | PyAttributeError | PyIndexError
                 | PyRuntimeError | PyRecursionError | PyOther.
Inductive exn :=
| ERecognition            (* yatiml.RecognitionError *)
| EYaml                   (* yaml.YAMLError (ConstructorError etc.) *)
| ESeasoning              (* yatiml.SeasoningError *)
| EPy (k : pyexn)         (* any other Python exception, by class *)
| EFuel                   (* model ran out of fuel: excluded by every statement, counted = 0 in the tie *)
| EOracle.                (* a scalar missing from the per-case oracle table: counted = 0 in the tie *)
Inductive result (A : Type) := Ok (a : A) | Err (e : exn).
Arguments Ok {A} a. Arguments Err {A} e.
Definition bind {A B} (r : result A) (f : A -> result B) : result B :=
  match r with Ok a => f a | Err e => Err e end.
Notation "x <- r ;; k" := (bind r (fun x => k)) (at level 61, r at next level, right associativity).

(* ---- marks: 0-based line/column as yaml.Mark; generated nodes carry gen = true ---- *)
Record mark := { m_line : N; m_col : N; m_gen : bool }.
Definition genmark : mark := {| m_line := 0; m_col := 0; m_gen := true |}.
Definition nomark : mark := {| m_line := 0; m_col := 0; m_gen := false |}.

(* ---- nodes ---- *)
Inductive node :=
| Scalar (tag : ustring) (v : ustring) (m : mark)
| Seq (tag : ustring) (items : list node) (m : mark)
| Map (tag : ustring) (pairs : list (node * node)) (m : mark).

Definition ntag (n : node) : ustring :=
  match n with Scalar t _ _ | Seq t _ _ | Map t _ _ => t end.
Definition nmark (n : node) : mark :=
  match n with Scalar _ _ m | Seq _ _ m | Map _ _ m => m end.
Definition set_tag (t : ustring) (n : node) : node :=
  match n with Scalar _ v m => Scalar t v m | Seq _ l m => Seq t l m | Map _ l m => Map t l m end.

Definition core_prefix_colon := u "tag:yaml.org,2002:"%string.   (* strip_tags, set_value *)
Definition core_prefix := u "tag:yaml.org,2002"%string.          (* recognizer's tag-conflict check *)
Definition bang (c : ustring) : ustring := 33 :: c.              (* "!" ++ class name *)
Arguments bang : simpl never.

(* structural recursion principle with Forall over children *)
Section node_ind2.
  Variable P : node -> Prop.
  Hypothesis Hs : forall t v m, P (Scalar t v m).
  Hypothesis Hq : forall t l m, Forall P l -> P (Seq t l m).
  Hypothesis Hm : forall t l m, Forall (fun kv => P (fst kv) /\ P (snd kv)) l -> P (Map t l m).
  Fixpoint node_ind2 (n : node) : P n :=
    match n with
    | Scalar t v m => Hs t v m
    | Seq t l m => Hq t l m ((fix go (l : list node) : Forall P l :=
                                match l with [] => Forall_nil _ | x :: r => Forall_cons _ (node_ind2 x) (go r) end) l)
    | Map t l m => Hm t l m ((fix go (l : list (node * node)) : Forall (fun kv => P (fst kv) /\ P (snd kv)) l :=
                                match l with
                                | [] => Forall_nil _
                                | p :: r => Forall_cons p (conj (node_ind2 (fst p)) (node_ind2 (snd p))) (go r)
                                end) l)
    end.
End node_ind2.

(* comparison ignoring marks *)
Fixpoint node_eqb (a b : node) : bool :=
  match a, b with
  | Scalar t v _, Scalar t' v' _ => ueqb t t' && ueqb v v'
  | Seq t l _, Seq t' l' _ =>
      ueqb t t' && (fix go (l l' : list node) : bool :=
                      match l, l' with
                      | [], [] => true
                      | x :: r, y :: r' => node_eqb x y && go r r'
                      | _, _ => false end) l l'
  | Map t l _, Map t' l' _ =>
      ueqb t t' && (fix go (l l' : list (node * node)) : bool :=
                      match l, l' with
                      | [], [] => true
                      | (k, v) :: r, (k', v') :: r' => node_eqb k k' && node_eqb v v' && go r r'
                      | _, _ => false end) l l'
  | _, _ => false
  end.

(* ---- values ---- *)
Inductive value :=
| VStr (s : ustring) | VInt (z : Z) | VFloat (hex : ustring)   (* float.hex() text: bit-exact, never compared numerically *)
| VBool (b : bool) | VNone
| VDate (iso : ustring) | VDateTime (iso : ustring) | VBytes (b : list N) | VPath (s : ustring)
| VList (l : list value)
| VDict (l : list (value * value))                  (* insertion-ordered; later duplicates overwrite the value in place *)
| VObj (c : ustring) (kw : list (ustring * value))  (* constructor call: class name, keyword arguments in call order *)
| VEnum (c m : ustring) | VUStr (c s : ustring).

Fixpoint value_eqb (a b : value) : bool :=
  match a, b with
  | VStr x, VStr y | VFloat x, VFloat y | VDate x, VDate y | VDateTime x, VDateTime y
  | VPath x, VPath y => ueqb x y
  | VBytes x, VBytes y => ueqb x y
  | VInt x, VInt y => Z.eqb x y
  | VBool x, VBool y => Bool.eqb x y
  | VNone, VNone => true
  | VList l, VList l' =>
      (fix go (l l' : list value) : bool :=
         match l, l' with [] , [] => true | x :: r, y :: r' => value_eqb x y && go r r' | _, _ => false end) l l'
  | VDict l, VDict l' =>
      (fix go (l l' : list (value * value)) : bool :=
         match l, l' with
         | [], [] => true
         | (k, v) :: r, (k', v') :: r' => value_eqb k k' && value_eqb v v' && go r r'
         | _, _ => false end) l l'
  | VObj c kw, VObj c' kw' =>
      ueqb c c' && (fix go (l l' : list (ustring * value)) : bool :=
         match l, l' with
         | [], [] => true
         | (k, v) :: r, (k', v') :: r' => ueqb k k' && value_eqb v v' && go r r'
         | _, _ => false end) kw kw'
  | VEnum c m, VEnum c' m' => ueqb c c' && ueqb m m'
  | VUStr c s, VUStr c' s' => ueqb c c' && ueqb s s'
  | _, _ => false
  end.

Definition exn_eqb (a b : exn) : bool :=
  match a, b with
  | ERecognition, ERecognition | EYaml, EYaml | ESeasoning, ESeasoning | EFuel, EFuel | EOracle, EOracle => true
  | EPy x, EPy y =>
      match x, y with
      | PyKeyError, PyKeyError | PyValueError, PyValueError | PyTypeError, PyTypeError
      | PyAttributeError, PyAttributeError | PyIndexError, PyIndexError | PyRuntimeError, PyRuntimeError
      | PyRecursionError, PyRecursionError | PyOther, PyOther => true
      | _, _ => false end
  | _, _ => false
  end.

(* ---- the scalar oracle: what PyYAML's SafeConstructor makes of (tag, text) for scalars that
        yatiml's own constructors do not handle.  A finite table per case, computed by the harness
        with the real functions; theorems quantify over all oracles satisfying oracle_wf. ---- *)
Definition oracle := list ((ustring * ustring) * result value).
Fixpoint olookup (o : oracle) (t v : ustring) : result value :=
  match o with
  | [] => Err EOracle
  | ((t', v'), r) :: o' => if ueqb t t' && ueqb v v' then r else olookup o' t v
  end.
