#!/bin/sh
# Build the Coq development from files on disk only (no network).
set -e
cd "$(dirname "$0")"
exec ./check --setup
